// extract: a deliberately tiny Go -> Gallina translator (DESIGN.md section 3.5).
// Usage: extract <file.go> <funcname> <coqname>      first-order integer function
//
//	extract const <file.go> <name>               string constant      -> its value, one line, Go-quoted
//	extract map <file.go> <var>                  map composite literal -> one "key<TAB>value" line per entry, sorted
//	                                             (string literals unquoted, identifiers/other expressions as source text)
//	extract fn <file.go> <Name[,Name...]> <prefix>  first-order functions over strings, ints, bools, slices and
//	                                             structs (fn.go; tools/notes/Translator.md)
//	extract src <file.go> <Name>                 the Go text of a function
//
// Supported by the first mode: parameters of type int; a body that is a sequence of
//
//	if <cond> { return <expr> }   (optionally with else { return <expr> } / else if ...)
//
// ended by `return <expr>`; cond over ==, !=, <, <=, >, >=, &&, ||, !, parentheses;
// expr over identifiers, integer literals, +, -, *, parentheses.
// Anything else: exit status 3 and a message (the caller then falls back to the behavioural tie only).
package main

import (
	"bytes"
	"fmt"
	"go/ast"
	"go/parser"
	"go/printer"
	"go/token"
	"os"
	"sort"
	"strconv"
	"strings"
)

func die(f string, a ...interface{}) {
	fmt.Fprintf(os.Stderr, "extract: "+f+"\n", a...)
	os.Exit(3)
}

func expr(e ast.Expr) string {
	switch v := e.(type) {
	case *ast.Ident:
		if v.Name == "new" {
			return "new_"
		}
		return v.Name
	case *ast.BasicLit:
		if v.Kind != token.INT {
			die("unsupported literal %s", v.Value)
		}
		return "(" + v.Value + ")%Z"
	case *ast.ParenExpr:
		return "(" + expr(v.X) + ")"
	case *ast.UnaryExpr:
		if v.Op == token.SUB {
			return "(Z.opp " + expr(v.X) + ")"
		}
	case *ast.BinaryExpr:
		ops := map[token.Token]string{token.ADD: "Z.add", token.SUB: "Z.sub", token.MUL: "Z.mul"}
		if f, ok := ops[v.Op]; ok {
			return "(" + f + " " + expr(v.X) + " " + expr(v.Y) + ")"
		}
	}
	die("unsupported expression %T", e)
	return ""
}

func cond(e ast.Expr) string {
	switch v := e.(type) {
	case *ast.ParenExpr:
		return "(" + cond(v.X) + ")"
	case *ast.UnaryExpr:
		if v.Op == token.NOT {
			return "(negb " + cond(v.X) + ")"
		}
	case *ast.BinaryExpr:
		switch v.Op {
		case token.LAND:
			return "(andb " + cond(v.X) + " " + cond(v.Y) + ")"
		case token.LOR:
			return "(orb " + cond(v.X) + " " + cond(v.Y) + ")"
		case token.EQL:
			return "(Z.eqb " + expr(v.X) + " " + expr(v.Y) + ")"
		case token.NEQ:
			return "(negb (Z.eqb " + expr(v.X) + " " + expr(v.Y) + "))"
		case token.LSS:
			return "(Z.ltb " + expr(v.X) + " " + expr(v.Y) + ")"
		case token.LEQ:
			return "(Z.leb " + expr(v.X) + " " + expr(v.Y) + ")"
		case token.GTR:
			return "(Z.ltb " + expr(v.Y) + " " + expr(v.X) + ")"
		case token.GEQ:
			return "(Z.leb " + expr(v.Y) + " " + expr(v.X) + ")"
		}
	}
	die("unsupported condition %T", e)
	return ""
}

// stmts translates a statement list that must end by returning on every path.
func stmts(l []ast.Stmt) string {
	if len(l) == 0 {
		die("control reaches the end of the function without a return")
	}
	switch s := l[0].(type) {
	case *ast.ReturnStmt:
		if len(s.Results) != 1 {
			die("return with %d results", len(s.Results))
		}
		return expr(s.Results[0])
	case *ast.IfStmt:
		if s.Init != nil {
			die("if with init statement")
		}
		thenPart := stmtsFallthrough(s.Body.List, l[1:])
		var elsePart string
		switch e := s.Else.(type) {
		case nil:
			elsePart = stmts(l[1:])
		case *ast.BlockStmt:
			elsePart = stmtsFallthrough(e.List, l[1:])
		case *ast.IfStmt:
			elsePart = stmts(append([]ast.Stmt{e}, l[1:]...))
		default:
			die("unsupported else %T", s.Else)
		}
		return "(if " + cond(s.Cond) + " then " + thenPart + " else " + elsePart + ")"
	}
	die("unsupported statement %T", l[0])
	return ""
}

// a block followed by the rest of the enclosing list (reached if the block does not return)
func stmtsFallthrough(block, rest []ast.Stmt) string {
	return stmts(append(append([]ast.Stmt{}, block...), rest...))
}

func litOrText(fset *token.FileSet, e ast.Expr) string {
	if bl, ok := e.(*ast.BasicLit); ok && bl.Kind == token.STRING {
		v, err := strconv.Unquote(bl.Value)
		if err == nil {
			return v
		}
	}
	var b bytes.Buffer
	printer.Fprint(&b, fset, e)
	return b.String()
}

func tables() {
	fset := token.NewFileSet()
	f, err := parser.ParseFile(fset, os.Args[2], nil, 0)
	if err != nil {
		die("%v", err)
	}
	for _, d := range f.Decls {
		gd, ok := d.(*ast.GenDecl)
		if !ok {
			continue
		}
		for _, sp := range gd.Specs {
			vs, ok := sp.(*ast.ValueSpec)
			if !ok {
				continue
			}
			for i, n := range vs.Names {
				if n.Name != os.Args[3] || i >= len(vs.Values) {
					continue
				}
				switch os.Args[1] {
				case "const":
					fmt.Printf("%q\n", litOrText(fset, vs.Values[i]))
					return
				case "map":
					cl, ok := vs.Values[i].(*ast.CompositeLit)
					if !ok {
						die("%s is not a composite literal", n.Name)
					}
					var lines []string
					for _, el := range cl.Elts {
						kv, ok := el.(*ast.KeyValueExpr)
						if !ok {
							die("element without key")
						}
						lines = append(lines, fmt.Sprintf("%q\t%q", litOrText(fset, kv.Key), litOrText(fset, kv.Value)))
					}
					sort.Strings(lines)
					for _, l := range lines {
						fmt.Println(l)
					}
					return
				}
			}
		}
	}
	die("%s %s not found in %s", os.Args[1], os.Args[3], os.Args[2])
}

func main() {
	if len(os.Args) == 4 && (os.Args[1] == "const" || os.Args[1] == "map") {
		tables()
		return
	}
	if len(os.Args) == 5 && os.Args[1] == "fn" {
		fnMode()
		return
	}
	if len(os.Args) == 4 && os.Args[1] == "src" {
		srcMode()
		return
	}
	if len(os.Args) != 4 {
		die("usage: extract file.go func coqname | extract const|map file.go name | extract fn file.go Name[,Name...] prefix | extract src file.go Name")
	}
	fset := token.NewFileSet()
	f, err := parser.ParseFile(fset, os.Args[1], nil, 0)
	if err != nil {
		die("%v", err)
	}
	for _, d := range f.Decls {
		fd, ok := d.(*ast.FuncDecl)
		if !ok || fd.Name.Name != os.Args[2] || fd.Recv != nil {
			continue
		}
		var params []string
		for _, fl := range fd.Type.Params.List {
			if id, ok := fl.Type.(*ast.Ident); !ok || id.Name != "int" {
				die("parameter type is not int")
			}
			for _, n := range fl.Names {
				name := n.Name
				if name == "new" {
					name = "new_"
				}
				params = append(params, name)
			}
		}
		if fd.Type.Results == nil || len(fd.Type.Results.List) != 1 {
			die("result is not a single int")
		}
		fmt.Printf("Definition %s (%s : Z) : Z :=\n  %s.\n", os.Args[3], strings.Join(params, " "), stmts(fd.Body.List))
		return
	}
	die("function %s not found in %s", os.Args[2], os.Args[1])
}
