module verif.test/fakego

go 1.12
