// fakego: a stand-in for the go tool, given to mage through -gocmd / MAGEFILE_GOCMD.
//
// It appends one line per call ("<subcommand> <second argument>") to the file named by
// VERIF_FAKEGO_LOG, then follows VERIF_FAKEGO_PLAN (directives separated by ';'):
//
//	fail:<sub>              exit 1 when the subcommand is <sub>
//	failnth:<n>             exit 1 at the n-th call (1-based, counted in the log file)
//	block:<sub>:<gatefile>  at subcommand <sub>: create <gatefile>.reached, then wait until <gatefile> exists
//	corrupt:build           run the real go build, then overwrite the -o output with text
//	failafter:<sub>:<ms>    at subcommand <sub>: sleep <ms> milliseconds, then exit 1 (a go tool that fails late)
//	delay:<sub>:<ms>        at subcommand <sub>: sleep <ms> milliseconds, then go on (a slow go tool)
//
// If VERIF_FAKEGO_WATCH names a path, every call also appends "<sub> <a> <b>" to <log>.stat: does that
// path exist (Lstat) when the call starts (a) and when it is about to fail / to hand over to the real go
// tool (b).  The harness points it at mage_output_file.go: which go commands run while it exists.
//
// Otherwise (and after block) it execs the real go tool (VERIF_FAKEGO_REAL, else the first "go"
// on PATH that is not this program) with the same arguments and environment.
package main

import (
	"fmt"
	"io/ioutil"
	"os"
	"os/exec"
	"path/filepath"
	"strconv"
	"strings"
	"syscall"
	"time"
)

func realGo() string {
	if p := os.Getenv("VERIF_FAKEGO_REAL"); p != "" {
		return p
	}
	self, _ := os.Executable()
	self, _ = filepath.EvalSymlinks(self)
	for _, d := range filepath.SplitList(os.Getenv("PATH")) {
		p := filepath.Join(d, "go")
		st, err := os.Stat(p)
		if err != nil || st.IsDir() {
			continue
		}
		q, _ := filepath.EvalSymlinks(p)
		if q != self {
			return p
		}
	}
	fmt.Fprintln(os.Stderr, "fakego: no real go found")
	os.Exit(97)
	return ""
}

func main() {
	args := os.Args[1:]
	sub := ""
	if len(args) > 0 {
		sub = args[0]
	}
	n := 0
	if logf := os.Getenv("VERIF_FAKEGO_LOG"); logf != "" {
		if b, err := ioutil.ReadFile(logf); err == nil {
			n = strings.Count(string(b), "\n")
		}
		f, err := os.OpenFile(logf, os.O_WRONLY|os.O_CREATE|os.O_APPEND, 0666)
		if err == nil {
			second := ""
			if len(args) > 1 && sub == "env" {
				second = " " + args[1]
			}
			fmt.Fprintf(f, "%s%s\n", sub, second)
			f.Close()
		}
	}
	n++
	watch := os.Getenv("VERIF_FAKEGO_WATCH")
	seen := func() string {
		if watch == "" {
			return "-"
		}
		if _, err := os.Lstat(watch); err == nil {
			return "1"
		}
		return "0"
	}
	atStart := seen()
	stat := func() {
		if logf := os.Getenv("VERIF_FAKEGO_LOG"); logf != "" && watch != "" {
			if f, err := os.OpenFile(logf+".stat", os.O_WRONLY|os.O_CREATE|os.O_APPEND, 0666); err == nil {
				fmt.Fprintf(f, "%s %s %s\n", sub, atStart, seen())
				f.Close()
			}
		}
	}
	corrupt := false
	for _, d := range strings.Split(os.Getenv("VERIF_FAKEGO_PLAN"), ";") {
		parts := strings.SplitN(d, ":", 3)
		switch {
		case len(parts) == 2 && parts[0] == "fail" && parts[1] == sub:
			stat()
			fmt.Fprintln(os.Stderr, "fakego: injected failure of go", sub)
			os.Exit(1)
		case len(parts) == 2 && parts[0] == "failnth":
			if k, err := strconv.Atoi(parts[1]); err == nil && k == n {
				stat()
				fmt.Fprintln(os.Stderr, "fakego: injected failure of call", n, "go", sub)
				os.Exit(1)
			}
		case len(parts) == 3 && parts[0] == "failafter" && parts[1] == sub:
			ms, _ := strconv.Atoi(parts[2])
			time.Sleep(time.Duration(ms) * time.Millisecond)
			stat()
			fmt.Fprintln(os.Stderr, "fakego: injected late failure of go", sub)
			os.Exit(1)
		case len(parts) == 3 && parts[0] == "delay" && parts[1] == sub:
			ms, _ := strconv.Atoi(parts[2])
			time.Sleep(time.Duration(ms) * time.Millisecond)
		case len(parts) == 3 && parts[0] == "block" && parts[1] == sub:
			ioutil.WriteFile(parts[2]+".reached", []byte("x"), 0666)
			for i := 0; i < 6000; i++ {
				if _, err := os.Stat(parts[2]); err == nil {
					break
				}
				time.Sleep(20 * time.Millisecond)
			}
		case len(parts) == 2 && parts[0] == "corrupt" && parts[1] == sub:
			corrupt = true
		}
	}
	stat()
	real := realGo()
	if corrupt {
		c := exec.Command(real, args...)
		c.Stdout, c.Stderr, c.Stdin = os.Stdout, os.Stderr, os.Stdin
		if err := c.Run(); err != nil {
			os.Exit(1)
		}
		for i, a := range args {
			if a == "-o" && i+1 < len(args) {
				ioutil.WriteFile(args[i+1], []byte("this is not an executable\n"), 0777)
			}
		}
		os.Exit(0)
	}
	err := syscall.Exec(real, append([]string{real}, args...), os.Environ())
	fmt.Fprintln(os.Stderr, "fakego: exec failed:", err)
	os.Exit(98)
}
