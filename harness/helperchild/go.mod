module verif.test/helperchild

go 1.12
