// helperchild: the child program of the sh checks (C15).  No mage dependency.
//
// It is told what to do through environment variables (all optional):
//
//	C15X_EXIT  decimal exit code (default 0)
//	C15X_OUT   hex bytes to write to stdout
//	C15X_ERR   hex bytes to write to stderr
//	C15X_SIG   decimal signal number: after writing, kill itself with it
//	C15X_DUMP  path: write a JSON report there (argv, environment, stdin digest, what it is
//	           about to do) BEFORE writing the payloads / exiting
//	C15X_PLAN  a write plan "o,N,C;e,N,C;..." replacing C15X_OUT / C15X_ERR: each step writes the next N bytes of
//	           the stream's pattern (o = stdout, e = stderr; see pat) in separate writes of C bytes
//	argv       --c15-exit=K --c15-out=HEX --c15-dump=PATH --c15-hold=PATH: the same directives as arguments (they win);
//	           with --c15-hold the child, after writing its report, waits until that file exists (<= 60 s)
//	           --c15-read=line | --c15-read=N (or C15X_READ): read exactly one line / N bytes of stdin, byte by byte,
//	           instead of everything, and report them
//	C15X_BG    decimal milliseconds: before exiting, start a detached DESCENDANT (this program
//	           re-executed with C15X_ROLE=late) that outlives the child, sleeps that long, then
//	           writes C15X_LATE_OUT (hex) to the inherited stdout and C15X_LATE_ERR (hex) to the
//	           inherited stderr (a stream whose late payload is empty is NOT inherited), then
//	           creates the file C15X_BG_DONE
//
// Everything in the report is hex-encoded, the program never interprets its argv.
package main

import (
	"crypto/sha256"
	"encoding/hex"
	"encoding/json"
	"io/ioutil"
	"os"
	"os/exec"
	"strconv"
	"strings"
	"syscall"
	"time"
)

type report struct {
	Argv     []string `json:"argv"` // hex
	Env      []string `json:"env"`  // hex of "K=V"
	StdinSha string   `json:"stdin_sha"`
	StdinLen int      `json:"stdin_len"`
	Exit     int      `json:"exit"`
	Sig      int      `json:"sig"`
	Out      string   `json:"out"` // hex
	Err      string   `json:"err"` // hex
	BgMs     int      `json:"bg_ms"`
	LateOut  string   `json:"late_out"` // hex: written by the descendant to the inherited stdout
	LateErr  string   `json:"late_err"` // hex
	Plan     string   `json:"plan"`
	StdinHex string   `json:"stdin_hex"` // with --c15-read: the bytes read
}

// pat is byte i of the pattern of a stream: position dependent (lost, repeated or reordered bytes show), printable,
// a newline at every 1000th position
func pat(i, salt int) byte {
	if i%1000 == 999 {
		return '\n'
	}
	return byte(33 + (i*131+(i>>8)*17+salt)%94)
}

const progress = "progress 12%\r"

func planByte(kind string, i, salt int) byte {
	switch kind {
	case "o", "e":
		return pat(i, salt)
	case "O", "E":
		return byte(33 + (i*131+(i>>8)*17+salt)%94)
	case "on", "en":
		return '\n'
	case "or", "er":
		return progress[i%len(progress)]
	case "oz", "ez":
		return 0
	}
	return '?'
}

// readPortion reads exactly one line (byte by byte, so that nothing beyond it is consumed) or exactly n bytes
func readPortion(how string) []byte {
	var got []byte
	one := make([]byte, 1)
	if how == "line" {
		for {
			n, err := os.Stdin.Read(one)
			if n == 1 {
				got = append(got, one[0])
				if one[0] == '\n' {
					break
				}
			}
			if err != nil || n == 0 {
				break
			}
		}
		return got
	}
	want, _ := strconv.Atoi(how)
	for len(got) < want {
		n, err := os.Stdin.Read(one)
		if n == 1 {
			got = append(got, one[0])
		}
		if err != nil || n == 0 {
			break
		}
	}
	return got
}

func runPlan(plan string) {
	off := map[string]int{}
	for _, step := range strings.Split(plan, ";") {
		f := strings.Split(step, ",")
		if len(f) != 3 {
			continue
		}
		n, _ := strconv.Atoi(f[1])
		c, _ := strconv.Atoi(f[2])
		// f[0]: o / e the pattern (a newline at every 1000th position); O / E the pattern WITHOUT newlines (one long
		// line); on / en newlines; or / er "\r" progress output; oz / ez NUL bytes.  Offsets run per stream.
		st := strings.ToLower(f[0][:1])
		w, salt := os.Stdout, 0
		if st == "e" {
			w, salt = os.Stderr, 5
		}
		if c <= 0 {
			c = n
		}
		for n > 0 {
			k := c
			if k > n {
				k = n
			}
			buf := make([]byte, k)
			for j := range buf {
				buf[j] = planByte(f[0], off[st]+j, salt)
			}
			w.Write(buf)
			off[st] += k
			n -= k
		}
	}
}

func late() {
	ms, _ := strconv.Atoi(os.Getenv("C15X_BG"))
	out, _ := hex.DecodeString(os.Getenv("C15X_LATE_OUT"))
	errb, _ := hex.DecodeString(os.Getenv("C15X_LATE_ERR"))
	time.Sleep(time.Duration(ms) * time.Millisecond)
	if len(out) > 0 {
		os.Stdout.Write(out)
	}
	if len(errb) > 0 {
		os.Stderr.Write(errb)
	}
	os.Stdout.Close()
	os.Stderr.Close()
	if p := os.Getenv("C15X_BG_DONE"); p != "" {
		ioutil.WriteFile(p, []byte("done"), 0644)
	}
	os.Exit(0)
}

func main() {
	if os.Getenv("C15X_ROLE") == "late" {
		late()
	}
	exit, _ := strconv.Atoi(os.Getenv("C15X_EXIT"))
	sig, _ := strconv.Atoi(os.Getenv("C15X_SIG"))
	out, _ := hex.DecodeString(os.Getenv("C15X_OUT"))
	errb, _ := hex.DecodeString(os.Getenv("C15X_ERR"))
	// directives given as arguments (--c15-exit=K --c15-out=HEX --c15-dump=PATH --c15-hold=PATH) override the
	// environment: concurrent calls of one process share its environment, not their argument lists
	dumpPath, holdPath, readHow := os.Getenv("C15X_DUMP"), "", os.Getenv("C15X_READ")
	for _, a := range os.Args[1:] {
		switch {
		case strings.HasPrefix(a, "--c15-exit="):
			exit, _ = strconv.Atoi(a[11:])
		case strings.HasPrefix(a, "--c15-out="):
			out, _ = hex.DecodeString(a[10:])
		case strings.HasPrefix(a, "--c15-dump="):
			dumpPath = a[11:]
		case strings.HasPrefix(a, "--c15-hold="):
			holdPath = a[11:]
		case strings.HasPrefix(a, "--c15-read="):
			readHow = a[11:]
		}
	}
	if p := dumpPath; p != "" {
		var r report
		for _, a := range os.Args {
			r.Argv = append(r.Argv, hex.EncodeToString([]byte(a)))
		}
		for _, e := range os.Environ() {
			r.Env = append(r.Env, hex.EncodeToString([]byte(e)))
		}
		var in []byte
		if readHow != "" {
			// only its own portion of the caller's stdin: the rest is for whoever reads next
			in = readPortion(readHow)
			r.StdinHex = hex.EncodeToString(in)
		} else {
			in, _ = ioutil.ReadAll(os.Stdin)
		}
		h := sha256.Sum256(in)
		r.StdinSha = hex.EncodeToString(h[:])
		r.StdinLen = len(in)
		r.Exit, r.Sig = exit, sig
		r.Out, r.Err = hex.EncodeToString(out), hex.EncodeToString(errb)
		r.Plan = os.Getenv("C15X_PLAN")
		if r.Plan != "" {
			r.Out, r.Err = "", ""
		}
		r.BgMs, _ = strconv.Atoi(os.Getenv("C15X_BG"))
		if r.BgMs > 0 {
			r.LateOut, r.LateErr = os.Getenv("C15X_LATE_OUT"), os.Getenv("C15X_LATE_ERR")
		}
		b, _ := json.Marshal(r)
		if err := ioutil.WriteFile(p+".tmp", b, 0644); err == nil {
			os.Rename(p+".tmp", p)
		}
	}
	if holdPath != "" {
		// reported; now stay in flight until released
		for i := 0; i < 30000; i++ {
			if _, err := os.Stat(holdPath); err == nil {
				break
			}
			time.Sleep(2 * time.Millisecond)
		}
	}
	if plan := os.Getenv("C15X_PLAN"); plan != "" {
		runPlan(plan)
	} else {
		os.Stdout.Write(out)
		os.Stderr.Write(errb)
	}
	if bg, _ := strconv.Atoi(os.Getenv("C15X_BG")); bg > 0 {
		self, err := os.Executable()
		if err == nil {
			c := exec.Command(self)
			c.Env = append(os.Environ(), "C15X_ROLE=late")
			if os.Getenv("C15X_LATE_OUT") != "" {
				c.Stdout = os.Stdout
			}
			if os.Getenv("C15X_LATE_ERR") != "" {
				c.Stderr = os.Stderr
			}
			c.SysProcAttr = &syscall.SysProcAttr{Setsid: true}
			c.Start() // not waited for: it outlives this process
		}
	}
	if sig != 0 {
		syscall.Kill(os.Getpid(), syscall.Signal(sig))
		time.Sleep(1 * time.Second) // the signal was ignored or blocked: exit normally
	}
	os.Exit(exit)
}
