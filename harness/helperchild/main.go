// helperchild: the child program of the sh checks (C15).  No mage dependency.
//
// It is told what to do through environment variables (all optional):
//   C15X_EXIT  decimal exit code (default 0)
//   C15X_OUT   hex bytes to write to stdout
//   C15X_ERR   hex bytes to write to stderr
//   C15X_SIG   decimal signal number: after writing, kill itself with it
//   C15X_DUMP  path: write a JSON report there (argv, environment, stdin digest, what it is
//              about to do) BEFORE writing the payloads / exiting
// Everything in the report is hex-encoded, the program never interprets its argv.
package main

import (
	"crypto/sha256"
	"encoding/hex"
	"encoding/json"
	"io/ioutil"
	"os"
	"strconv"
	"syscall"
	"time"
)

type report struct {
	Argv     []string `json:"argv"` // hex
	Env      []string `json:"env"`  // hex of "K=V"
	StdinSha string   `json:"stdin_sha"`
	StdinLen int      `json:"stdin_len"`
	Exit     int      `json:"exit"`
	Sig      int      `json:"sig"`
	Out      string   `json:"out"` // hex
	Err      string   `json:"err"` // hex
}

func main() {
	exit, _ := strconv.Atoi(os.Getenv("C15X_EXIT"))
	sig, _ := strconv.Atoi(os.Getenv("C15X_SIG"))
	out, _ := hex.DecodeString(os.Getenv("C15X_OUT"))
	errb, _ := hex.DecodeString(os.Getenv("C15X_ERR"))
	if p := os.Getenv("C15X_DUMP"); p != "" {
		var r report
		for _, a := range os.Args {
			r.Argv = append(r.Argv, hex.EncodeToString([]byte(a)))
		}
		for _, e := range os.Environ() {
			r.Env = append(r.Env, hex.EncodeToString([]byte(e)))
		}
		in, _ := ioutil.ReadAll(os.Stdin)
		h := sha256.Sum256(in)
		r.StdinSha = hex.EncodeToString(h[:])
		r.StdinLen = len(in)
		r.Exit, r.Sig = exit, sig
		r.Out, r.Err = hex.EncodeToString(out), hex.EncodeToString(errb)
		b, _ := json.Marshal(r)
		if err := ioutil.WriteFile(p+".tmp", b, 0644); err == nil {
			os.Rename(p+".tmp", p)
		}
	}
	os.Stdout.Write(out)
	os.Stderr.Write(errb)
	if sig != 0 {
		syscall.Kill(os.Getpid(), syscall.Signal(sig))
		time.Sleep(20 * time.Second)
	}
	os.Exit(exit)
}
