module verif.test/importast

go 1.12
