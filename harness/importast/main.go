// importast reports how go/parser (standard library, nothing of mage) attaches comment groups to
// the import declarations of Go files: the input of the C19 model (coq/Model/ImportTag.v).
//
// stdin: one JSON object per line {"files": ["/abs/a.go", ...]}
// stdout: one JSON object per line {"files": [[decl, ...], ...]} or {"error": "..."}
package main

import (
	"bufio"
	"encoding/json"
	"fmt"
	"go/ast"
	"go/parser"
	"go/token"
	"os"
	"strconv"
	"strings"
)

type request struct {
	Files []string `json:"files"`
}

type spec struct {
	Doc     []string `json:"doc"`     // null: no group
	Comment []string `json:"comment"` // null: no group
	Path    string   `json:"path"`    // value of the literal
	Raw     bool     `json:"raw"`     // written with back quotes
}

type decl struct {
	Doc    []string `json:"doc"`
	Lparen bool     `json:"lparen"`
	Specs  []spec   `json:"specs"`
}

func texts(g *ast.CommentGroup) []string {
	if g == nil {
		return nil
	}
	out := make([]string, 0, len(g.List))
	for _, c := range g.List {
		out = append(out, c.Text)
	}
	return out
}

func one(path string) ([]decl, error) {
	fset := token.NewFileSet()
	f, err := parser.ParseFile(fset, path, nil, parser.ParseComments)
	if err != nil {
		return nil, err
	}
	decls := []decl{}
	for _, d := range f.Decls {
		gen, ok := d.(*ast.GenDecl)
		if !ok || gen.Tok != token.IMPORT {
			continue
		}
		dd := decl{Doc: texts(gen.Doc), Lparen: gen.Lparen != token.NoPos, Specs: []spec{}}
		for _, s := range gen.Specs {
			is := s.(*ast.ImportSpec)
			v, err := strconv.Unquote(is.Path.Value)
			if err != nil {
				return nil, fmt.Errorf("%s: import path %s: %v", path, is.Path.Value, err)
			}
			dd.Specs = append(dd.Specs, spec{Doc: texts(is.Doc), Comment: texts(is.Comment), Path: v,
				Raw: strings.HasPrefix(is.Path.Value, "`")})
		}
		decls = append(decls, dd)
	}
	return decls, nil
}

func main() {
	in := bufio.NewReaderSize(os.Stdin, 1<<20)
	out := bufio.NewWriter(os.Stdout)
	defer out.Flush()
	enc := json.NewEncoder(out)
	for {
		line, err := in.ReadBytes('\n')
		if len(strings.TrimSpace(string(line))) > 0 {
			var r request
			if e := json.Unmarshal(line, &r); e != nil {
				enc.Encode(map[string]string{"error": e.Error()})
			} else {
				res := [][]decl{}
				var perr error
				for _, p := range r.Files {
					d, e := one(p)
					if e != nil {
						perr = e
						break
					}
					res = append(res, d)
				}
				if perr != nil {
					enc.Encode(map[string]string{"error": perr.Error()})
				} else {
					enc.Encode(map[string]interface{}{"files": res})
				}
			}
		}
		if err != nil {
			break
		}
	}
}
