module verif.test/purefn

go 1.12

require github.com/magefile/mage v0.0.0

replace github.com/magefile/mage => /repo
