// purefn: calls a few pure functions of mage through their EXPORTED surface, for replaying an input on
// which the translated function (harness/extract, mode fn) and the Coq model differ (lib/extractlib.py).
// stdin: one JSON request; stdout: {"result": [...strings...]} or {"error": "..."}.
//
//	{"op":"TargetName"|"ID", "f": {"PkgAlias":"..", "Receiver":"..", ...}}          parse.Function methods
//	{"op":"Functions.Less", "fs": [{...}, ...], "i": 0, "j": 1}                     parse.Functions (sort.Interface)
//	{"op":"Imports.Less", "is": [{"UniqueName": ".."}, ...], "i": 0, "j": 1}        parse.Imports
//	{"op":"joinArgs", "a": [...], "b": [...]}     sh.OutCmd("echo", a...)(b...): the argument list the closure
//	                                              hands to echo is joinArgs(a, b)
package main

import (
	"encoding/json"
	"fmt"
	"os"
	"reflect"
	"strings"

	"github.com/magefile/mage/parse"
	"github.com/magefile/mage/sh"
)

type req struct {
	Op string              `json:"op"`
	F  map[string]string   `json:"f"`
	Fs []map[string]string `json:"fs"`
	Is []map[string]string `json:"is"`
	I  int                 `json:"i"`
	J  int                 `json:"j"`
	A  []string            `json:"a"`
	B  []string            `json:"b"`
}

func fill(ptr interface{}, m map[string]string) error {
	v := reflect.ValueOf(ptr).Elem()
	for k, s := range m {
		f := v.FieldByName(k)
		if !f.IsValid() || f.Kind() != reflect.String {
			return fmt.Errorf("no string field %s", k)
		}
		f.SetString(s)
	}
	return nil
}

func answer(v interface{}) {
	json.NewEncoder(os.Stdout).Encode(v)
}

func boolStr(b bool) []string {
	if b {
		return []string{"true"}
	}
	return []string{"false"}
}

func main() {
	var r req
	if err := json.NewDecoder(os.Stdin).Decode(&r); err != nil {
		answer(map[string]string{"error": err.Error()})
		return
	}
	defer func() {
		if p := recover(); p != nil {
			answer(map[string]string{"error": fmt.Sprint("panic: ", p)})
		}
	}()
	switch r.Op {
	case "TargetName", "ID":
		var f parse.Function
		if err := fill(&f, r.F); err != nil {
			answer(map[string]string{"error": err.Error()})
			return
		}
		if r.Op == "ID" {
			answer(map[string][]string{"result": {f.ID()}})
		} else {
			answer(map[string][]string{"result": {f.TargetName()}})
		}
	case "Functions.Less":
		var fs parse.Functions
		for _, m := range r.Fs {
			f := &parse.Function{}
			if err := fill(f, m); err != nil {
				answer(map[string]string{"error": err.Error()})
				return
			}
			fs = append(fs, f)
		}
		answer(map[string][]string{"result": boolStr(fs.Less(r.I, r.J))})
	case "Imports.Less":
		var is parse.Imports
		for _, m := range r.Is {
			im := &parse.Import{}
			if err := fill(im, m); err != nil {
				answer(map[string]string{"error": err.Error()})
				return
			}
			is = append(is, im)
		}
		answer(map[string][]string{"result": boolStr(is.Less(r.I, r.J))})
	case "joinArgs":
		// sh.OutCmd("echo", a...) returns a closure that runs echo with joinArgs(a, b): the words echo prints are
		// exactly the joined list (the replayed strings contain no blanks, no "$" and are not echo options)
		out, err := sh.OutCmd("echo", r.A...)(r.B...)
		if err != nil {
			answer(map[string]string{"error": err.Error()})
			return
		}
		answer(map[string][]string{"result": strings.Fields(out)})
	default:
		answer(map[string]string{"error": "unknown op " + r.Op})
	}
}
