// Package time (import path .../faketime) has a type that PRINTS exactly like the standard
// library's time.Duration ("time.Duration") but is a different type: mg.F must tell them apart by
// type identity, not by rendered name (C14).
package time

type Duration int64
