module verif.test/unitrun

go 1.18

require github.com/magefile/mage v0.0.0

replace github.com/magefile/mage => /repo
