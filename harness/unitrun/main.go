// unitrun: in-process driver for the public API of mage's packages.
// Reads one JSON request per line on stdin, writes one JSON answer per line.
package main

import (
	"bufio"
	"context"
	"encoding/base64"
	"encoding/json"
	"errors"
	"fmt"
	"os"
	"reflect"
	"strings"
	"sync"
	"sync/atomic"
	"syscall"
	"time"

	"github.com/magefile/mage/mg"

	faketime "verif.test/unitrun/faketime"
)

type MyString string
type MyNS mg.Namespace

// look-alikes of context.Context
type CtxStruct struct{ context.Context }
type CtxIface interface {
	context.Context
	Extra()
}

var poolErr error = errors.New("pool error")

// error values that are not nil although "nothing" is in them
type c14PtrErr struct{}

func (*c14PtrErr) Error() string { return "typed nil pointer" }

type c14MapErr map[string]int

func (c14MapErr) Error() string { return "nil map" }

type val struct {
	T string          `json:"t"`
	V json.RawMessage `json:"v,omitempty"`
	B string          `json:"b,omitempty"` // base64 bytes for strings
	L []val           `json:"l,omitempty"`
}

type req struct {
	Op      string          `json:"op"`
	Fn      int             `json:"fn"`
	Args    []val           `json:"args"`
	A       []val           `json:"a"`
	B       []val           `json:"b"`
	ErrMode string          `json:"errmode"`
	Verbose bool            `json:"verbose"`
	CtxDone bool            `json:"ctxdone"`
	CtxMid  bool            `json:"ctxmid"` // the context is cancelled WHILE the function runs: Run returns the function's own result, after it finished
	Raw     json.RawMessage `json:"raw"`
}

var (
	recMu     sync.Mutex
	recCalls  int
	recLast   []val
	recAll    [][]val
	theCtx    context.Context
	expectCtx context.Context // the context the current Run / CtxDeps call is given
)

type ctxKey struct{}

func toVal(x interface{}) val {
	switch v := x.(type) {
	case nil:
		return val{T: "nil"}
	case int:
		return val{T: "int", V: mustJSON(v)}
	case bool:
		return val{T: "bool", V: mustJSON(v)}
	case string:
		return val{T: "string", B: base64.StdEncoding.EncodeToString([]byte(v))}
	case time.Duration:
		return val{T: "dur", V: mustJSON(int64(v))}
	case float64:
		return val{T: "float64"}
	case int64:
		return val{T: "int64"}
	case MyString:
		return val{T: "mystring", B: base64.StdEncoding.EncodeToString([]byte(v))}
	case []string:
		return val{T: "strslice"}
	case *int:
		return val{T: "intptr"}
	case mg.Namespace:
		return val{T: "ns"}
	case MyNS:
		return val{T: "myns"}
	case struct{}:
		return val{T: "empty"}
	case CtxStruct:
		return val{T: "ctxstruct"}
	case *CtxStruct:
		return val{T: "ctxptr"}
	case context.Context:
		// the function must receive THE context Run was called with (identity), not a derived one
		if v == expectCtx {
			return val{T: "ctx", V: mustJSON("given")}
		}
		return val{T: "ctx", V: mustJSON("other")}
	}
	return val{T: "unknown:" + fmt.Sprintf("%T", x)}
}

// errorsIdentical: the very same error value came back (comparable dynamic types only)
func errorsIdentical(a, b error) (same bool) {
	defer func() {
		if recover() != nil {
			same = false
		}
	}()
	return a == b
}

func mustJSON(x interface{}) json.RawMessage {
	b, err := json.Marshal(x)
	if err != nil {
		panic(err)
	}
	return b
}

func fromVal(v val) interface{} {
	switch v.T {
	case "nil":
		return nil
	case "int":
		var n int
		json.Unmarshal(v.V, &n)
		return n
	case "bool":
		var b bool
		json.Unmarshal(v.V, &b)
		return b
	case "string":
		b, _ := base64.StdEncoding.DecodeString(v.B)
		return string(b)
	case "dur":
		var n int64
		json.Unmarshal(v.V, &n)
		return time.Duration(n)
	case "float64":
		return float64(1.5)
	case "int64":
		return int64(7)
	case "fakedur":
		return faketime.Duration(7) // a type of another package named "time": prints as time.Duration
	case "mystring":
		b, _ := base64.StdEncoding.DecodeString(v.B)
		return MyString(b)
	case "strslice":
		return []string{"x"}
	case "intptr":
		n := 3
		return &n
	case "ctx":
		return context.Background()
	case "ctxstruct":
		return CtxStruct{context.Background()}
	case "ctxptr":
		return &CtxStruct{context.Background()}
	case "ctxiface":
		return nil
	case "ns":
		return mg.Namespace{}
	case "myns":
		return MyNS{}
	case "empty":
		return struct{}{}
	}
	panic("bad val type " + v.T)
}

// set by doF for a "cancelled in mid-run" call: the function blocks until that context is done, then works on for a moment
var midCtx context.Context
var midFinished int32

func record(id int, fixed []interface{}, tail interface{}) {
	if c := midCtx; c != nil {
		<-c.Done()
		time.Sleep(25 * time.Millisecond)
		defer atomic.StoreInt32(&midFinished, 1)
	}
	recMu.Lock()
	defer recMu.Unlock()
	recCalls++
	out := []val{}
	for _, f := range fixed {
		out = append(out, toVal(f))
	}
	if tail != nil {
		rv := reflect.ValueOf(tail)
		for i := 0; i < rv.Len(); i++ {
			out = append(out, toVal(rv.Index(i).Interface()))
		}
	}
	recLast = out
	recAll = append(recAll, out)
}

func vals(vs []val) []interface{} {
	var out []interface{}
	for _, v := range vs {
		out = append(out, fromVal(v))
	}
	return out
}

type runRes struct {
	Panic    bool   `json:"panic"`
	Msg      string `json:"msg,omitempty"`
	Received []val  `json:"received"`
	Err      string `json:"err"`
	Calls    int    `json:"calls"`
}

type fRes struct {
	Panic        bool    `json:"panic"`
	PanicIsError bool    `json:"panic_is_error"`
	Msg          string  `json:"msg,omitempty"`
	ID           string  `json:"id,omitempty"`
	Name         string  `json:"name,omitempty"`
	Run          *runRes `json:"run,omitempty"`
}

func doF(target interface{}, args []interface{}, ctxDone, ctxMid bool) (res fRes) {
	var f mg.Fn
	func() {
		defer func() {
			if v := recover(); v != nil {
				res.Panic = true
				_, res.PanicIsError = v.(error)
				res.Msg = fmt.Sprint(v)
			}
		}()
		f = mg.F(target, args...)
	}()
	if res.Panic {
		return res
	}
	res.ID = base64.StdEncoding.EncodeToString([]byte(f.ID()))
	res.Name = f.Name()
	rr := &runRes{}
	res.Run = rr
	recMu.Lock()
	recCalls = 0
	recLast = nil
	recMu.Unlock()
	func() {
		defer func() {
			if v := recover(); v != nil {
				rr.Panic = true
				rr.Msg = fmt.Sprint(v)
			}
		}()
		runCtx := theCtx
		if ctxDone {
			// Run is handed a context that is already done: it still calls the function once, with that context
			c, cancel := context.WithCancel(theCtx)
			cancel()
			runCtx = c
		}
		if ctxMid && !ctxDone {
			c, cancel := context.WithCancel(theCtx)
			runCtx = c
			midCtx = c
			atomic.StoreInt32(&midFinished, 0)
			go func() { time.Sleep(15 * time.Millisecond); cancel() }()
			defer func() { midCtx = nil }()
		}
		expectCtx = runCtx
		err := f.Run(runCtx)
		early := ctxMid && !ctxDone && atomic.LoadInt32(&midFinished) == 0
		if early {
			time.Sleep(80 * time.Millisecond) // let the function finish before the next request
		}
		switch {
		case early:
			rr.Err = "other:Run returned while the function was still running (context cancelled in mid-run): " + fmt.Sprint(err)
		case err == nil:
			rr.Err = "nil"
		case poolErr != nil && reflect.TypeOf(err) == reflect.TypeOf(poolErr) && fmt.Sprintf("%p", err) == fmt.Sprintf("%p", poolErr) || errorsIdentical(err, poolErr):
			rr.Err = "pool"
		default:
			rr.Err = "other:" + err.Error()
		}
	}()
	recMu.Lock()
	rr.Calls = recCalls
	rr.Received = recLast
	recMu.Unlock()
	return res
}

type pairRes struct {
	Execs  int    `json:"execs"`
	IDEq   bool   `json:"ideq"`
	NameEq bool   `json:"nameeq"`
	Panic  string `json:"panic,omitempty"`
	// what each execution received, in execution order (the bodies ran through mg.Deps)
	Received [][]val `json:"received"`
}

func doPair(target interface{}, a, b []interface{}) (res pairRes) {
	defer func() {
		if v := recover(); v != nil {
			res.Panic = fmt.Sprint(v)
		}
	}()
	fa := mg.F(target, a...)
	fb := mg.F(target, b...)
	res.IDEq = fa.ID() == fb.ID()
	res.NameEq = fa.Name() == fb.Name()
	recMu.Lock()
	recCalls = 0
	recAll = nil
	recMu.Unlock()
	func() {
		defer func() { recover() }() // pool functions with an error result return poolErr
		expectCtx = theCtx
		mg.CtxDeps(theCtx, fa, fb)
	}()
	recMu.Lock()
	res.Execs = recCalls
	res.Received = recAll
	recAll = nil
	recMu.Unlock()
	return res
}

func main() {
	// a CANCELLABLE context (never cancelled): what targets get under mage -t / after the first target
	theCtx, _ = context.WithCancel(context.WithValue(context.Background(), ctxKey{}, 1))
	expectCtx = theCtx
	in := bufio.NewReaderSize(os.Stdin, 1<<20)
	out := bufio.NewWriter(os.Stdout)
	defer out.Flush()
	dec := json.NewDecoder(in)
	enc := json.NewEncoder(out)
	for {
		var r req
		if err := dec.Decode(&r); err != nil {
			return
		}
		var ans interface{}
		switch r.Op {
		case "F":
			switch r.ErrMode {
			case "nil":
				poolErr = nil
			case "typednil":
				poolErr = (*c14PtrErr)(nil) // a non-nil error whose dynamic value is a nil pointer
			case "nilmap":
				poolErr = c14MapErr(nil) // ... a nil map
			case "empty":
				poolErr = errors.New("") // a non-nil error with an empty message
			case "etxtbsy":
				poolErr = &os.PathError{Op: "fork/exec", Path: "/tmp/tool", Err: syscall.ETXTBSY} // transient-looking system errors: one call all the same
			case "eagain":
				poolErr = &os.PathError{Op: "read", Path: "/dev/stdin", Err: syscall.EAGAIN}
			case "eintr":
				poolErr = os.NewSyscallError("wait", syscall.EINTR)
			case "canceled":
				poolErr = context.Canceled
			case "deadline":
				poolErr = context.DeadlineExceeded
			default:
				if strings.HasPrefix(r.ErrMode, "text:") {
					poolErr = errors.New(r.ErrMode[5:]) // the TEXT of an error says nothing about how often the function is to be called
				} else {
					poolErr = errors.New("pool error")
				}
			}
			var target interface{}
			switch {
			case r.Fn == -1:
				target = nil
			case r.Fn == -2:
				target = 42
			case r.Fn == -3:
				target = "notafunc"
			default:
				target = pool[r.Fn]
			}
			if r.Verbose {
				os.Setenv("MAGEFILE_VERBOSE", "1")
			} else {
				os.Setenv("MAGEFILE_VERBOSE", "0")
			}
			ans = doF(target, vals(r.Args), r.CtxDone, r.CtxMid)
		case "pair":
			poolErr = nil
			if r.Verbose {
				os.Setenv("MAGEFILE_VERBOSE", "1") // the "Running dependency:" line is written right before the body runs
			} else {
				os.Setenv("MAGEFILE_VERBOSE", "0")
			}
			ans = doPair(pool[r.Fn], vals(r.A), vals(r.B))
		default:
			ans = dispatchMore(r)
		}
		if err := enc.Encode(ans); err != nil {
			panic(err)
		}
		out.Flush()
	}
}
