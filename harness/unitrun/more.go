package main

// dispatchMore handles the ops of the other properties (added per property).
func dispatchMore(r req) interface{} {
	if h, ok := moreOps[r.Op]; ok {
		return h(r)
	}
	return map[string]string{"error": "unknown op " + r.Op}
}

var moreOps = map[string]func(req) interface{}{}
