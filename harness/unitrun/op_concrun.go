package main

// op "concrun" (C14, faithful call): ONE mg.F value is Run from several goroutines at the same
// time, each with its own context; every call must hand the wrapped function exactly the context
// and the argument values of THAT call.  Reports the number of calls that saw something else.

import (
	"context"
	"encoding/json"
	"fmt"
	"sync"
	"sync/atomic"

	"github.com/magefile/mage/mg"
)

type c14ctxKey struct{}

type c14idErr int

func (e c14idErr) Error() string { return fmt.Sprintf("ctx %d", int(e)) }

func c14CtxProbe(ctx context.Context, tag int, s string) error {
	id, _ := ctx.Value(c14ctxKey{}).(int)
	if tag != 41 || s != "arg" {
		return c14idErr(-1)
	}
	return c14idErr(id)
}

type c14NS mg.Namespace

func (c14NS) Probe(ctx context.Context, tag int, s string) error { return c14CtxProbe(ctx, tag, s) }

func init() {
	moreOps["concrun"] = func(r req) interface{} {
		var q struct {
			Workers, Rounds int
		}
		json.Unmarshal(r.Raw, &q)
		res := map[string]interface{}{}
		for name, target := range map[string]interface{}{"func": c14CtxProbe, "method": c14NS.Probe} {
			f := mg.F(target, 41, "arg")
			var wrong, calls int64
			var wg sync.WaitGroup
			start := make(chan struct{})
			for w := 1; w <= q.Workers; w++ {
				wg.Add(1)
				go func(w int) {
					defer wg.Done()
					ctx := context.WithValue(context.Background(), c14ctxKey{}, w)
					<-start
					for i := 0; i < q.Rounds; i++ {
						err := f.Run(ctx)
						atomic.AddInt64(&calls, 1)
						if e, ok := err.(c14idErr); !ok || int(e) != w {
							atomic.AddInt64(&wrong, 1)
						}
					}
				}(w)
			}
			close(start)
			wg.Wait()
			res[name] = map[string]int64{"calls": calls, "wrong": wrong}
		}
		return res
	}
}
