package main

// op "conv" (C04): the Go standard library's own answer for converting one command-line word to a
// supported parameter type, computed independently of mage:  strconv.Atoi / strconv.ParseBool /
// time.ParseDuration.  The printed form is fmt.Sprint of the value (what probe.Call prints).

import (
	"encoding/base64"
	"encoding/json"
	"fmt"
	"strconv"
	"strings"
	"time"
)

type convReq struct {
	Ty string `json:"ty"`
	W  string `json:"w"` // base64
}

type convRes struct {
	Ok      bool   `json:"ok"`
	Printed string `json:"printed"`
}

func init() {
	moreOps["conv"] = func(r req) interface{} {
		var qs []convReq
		if err := json.Unmarshal(r.Raw, &qs); err != nil {
			return map[string]string{"error": err.Error()}
		}
		res := make([]convRes, len(qs))
		for i, q := range qs {
			b, err := base64.StdEncoding.DecodeString(q.W)
			if err != nil {
				return map[string]string{"error": err.Error()}
			}
			w := string(b)
			var v interface{}
			switch q.Ty {
			case "int":
				v, err = strconv.Atoi(w)
			case "bool":
				v, err = strconv.ParseBool(w)
			case "time.Duration":
				v, err = time.ParseDuration(w)
			case "tolower": // strings.ToLower / ToUpper: what the generated main and the template's `lower` apply to names
				v, err = strings.ToLower(w), nil
			case "toupper":
				v, err = strings.ToUpper(w), nil
			default:
				return map[string]string{"error": "bad type " + q.Ty}
			}
			if err == nil {
				res[i] = convRes{Ok: true, Printed: fmt.Sprint(v)}
			}
		}
		return res
	}
}
