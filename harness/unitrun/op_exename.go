package main

import (
	"encoding/json"
	"os"
	"path/filepath"

	"github.com/magefile/mage/mage"
)

// op "exename" (C08): calls mage.ExeName in-process on a list of files and reports the path it
// returns, split into directory and base name.  "env" entries are set in this process for the
// duration of the call (a fake go command reads them to print another `go version`).
type exenameReq struct {
	GoCmd    string            `json:"gocmd"`
	CacheDir string            `json:"cachedir"`
	Files    []string          `json:"files"`
	Env      map[string]string `json:"env"`
	Cwd      string            `json:"cwd"`
}

type exenameRes struct {
	Path string `json:"path"`
	Dir  string `json:"dir"`
	Base string `json:"base"`
	Err  string `json:"err"`
}

func init() {
	moreOps["exename"] = func(r req) interface{} {
		var q exenameReq
		if err := json.Unmarshal(r.Raw, &q); err != nil {
			return map[string]string{"error": err.Error()}
		}
		if q.GoCmd == "" {
			q.GoCmd = "go"
		}
		if q.Cwd != "" {
			if err := os.Chdir(q.Cwd); err != nil {
				return map[string]string{"error": err.Error()}
			}
		}
		old := map[string]*string{}
		for k, v := range q.Env {
			if cur, ok := os.LookupEnv(k); ok {
				c := cur
				old[k] = &c
			} else {
				old[k] = nil
			}
			os.Setenv(k, v)
		}
		defer func() {
			for k, v := range old {
				if v == nil {
					os.Unsetenv(k)
				} else {
					os.Setenv(k, *v)
				}
			}
		}()
		var res exenameRes
		p, err := mage.ExeName(q.GoCmd, q.CacheDir, q.Files)
		if err != nil {
			res.Err = err.Error()
			return res
		}
		res.Path = p
		res.Dir = filepath.Dir(p)
		res.Base = filepath.Base(p)
		return res
	}
}
