package main

// C14: instantiations of GENERIC functions are ordinary functions with their own parameter types;
// mg.F must judge each instantiation by its own signature (a per-name cache of signatures would
// judge Gen1[string] by Gen1[int]'s).  They are appended to the pool; their signatures are listed
// in pool_generic.json in the same order, so the ordinary "F" and "pair" cases cover them, in
// random interleavings of instantiations with well- and ill-typed argument lists.

import (
	"context"
	"time"
)

func Gen1[T any](a0 T) error { record(-1, []interface{}{a0}, nil); return poolErr }

func Gen2[T any](ctx context.Context, a0 T, rest ...T) error {
	record(-2, []interface{}{ctx, a0}, rest)
	return poolErr
}

func Gen3[A, B any](a0 A, a1 B) { record(-3, []interface{}{a0, a1}, nil) }

func init() {
	pool = append(pool,
		Gen1[int], Gen1[string], Gen1[bool], Gen1[time.Duration],
		Gen2[int], Gen2[string], Gen2[time.Duration],
		Gen3[int, string], Gen3[string, int], Gen3[bool, time.Duration], Gen3[string, string])
}
