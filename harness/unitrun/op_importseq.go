package main

// op "importseq" (C19): a SEQUENCE of parses in ONE process.  mage is also a library
// (mage.ParseAndRun / mage.Invoke / parse.PrimaryPackage are public and mage's own tests call them
// repeatedly), so state kept between parses is observable only this way.
//
// raw: {"steps": [{"dir": "/abs/magefile/dir", "files": ["mf_0.go", ...],
//                  "write": {"/abs/path": "text", ...}}]}
// For every step, in order: the files of "write" are created, then
// parse.PrimaryPackage("go", dir, files) is called.  Answer: {"steps": [{"funcs": [...]} | {"error": "..."}]}
// with one entry per target the parse reports: the magefile package's own functions and the
// functions of every import, each as {t: TargetName, p: ImportPath, r: Receiver, n: Name}.

import (
	"encoding/json"
	"io/ioutil"
	"os"
	"path/filepath"
	"sort"

	"github.com/magefile/mage/parse"
)

type c19Step struct {
	Dir   string            `json:"dir"`
	Files []string          `json:"files"`
	Write map[string]string `json:"write"`
}

type c19SeqReq struct {
	Steps []c19Step `json:"steps"`
}

type c19Func struct {
	T string `json:"t"`
	P string `json:"p"`
	R string `json:"r"`
	N string `json:"n"`
}

type c19StepRes struct {
	Funcs []c19Func `json:"funcs"`
	Error string    `json:"error,omitempty"`
}

func c19RunStep(s c19Step) c19StepRes {
	for p, text := range s.Write {
		if err := os.MkdirAll(filepath.Dir(p), 0755); err != nil {
			return c19StepRes{Error: "harness: " + err.Error()}
		}
		if err := ioutil.WriteFile(p, []byte(text), 0644); err != nil {
			return c19StepRes{Error: "harness: " + err.Error()}
		}
	}
	info, err := parse.PrimaryPackage("go", s.Dir, s.Files)
	if err != nil {
		return c19StepRes{Error: err.Error()}
	}
	res := c19StepRes{Funcs: []c19Func{}}
	for _, f := range info.Funcs {
		res.Funcs = append(res.Funcs, c19Func{T: f.TargetName(), P: f.ImportPath, R: f.Receiver, N: f.Name})
	}
	for _, imp := range info.Imports {
		for _, f := range imp.Info.Funcs {
			res.Funcs = append(res.Funcs, c19Func{T: f.TargetName(), P: f.ImportPath, R: f.Receiver, N: f.Name})
		}
	}
	sort.Slice(res.Funcs, func(i, j int) bool {
		a, b := res.Funcs[i], res.Funcs[j]
		if a.T != b.T {
			return a.T < b.T
		}
		return a.P < b.P
	})
	return res
}

func init() {
	moreOps["importseq"] = func(r req) interface{} {
		var q c19SeqReq
		if err := json.Unmarshal(r.Raw, &q); err != nil {
			return map[string]string{"error": err.Error()}
		}
		out := []c19StepRes{}
		for _, s := range q.Steps {
			out = append(out, c19RunStep(s))
		}
		return map[string]interface{}{"steps": out}
	}
}
