package main

import (
	"bytes"
	"encoding/base64"
	"encoding/json"
	"io/ioutil"
	"os"
	"path/filepath"

	"github.com/magefile/mage/mage"
)

// op "listprefix" (C09): what does mage.Magefiles (go/build) say about a directory that holds
// magefiles plus a file mage_output_file.go with given bytes?  The request names a directory,
// a base content and a list of prefix lengths of it (or "all": every length 0..len), and/or a
// list of other contents.  Per content: ok (no error) and listed (the file is among the
// magefiles returned).  With "asis" the directory is listed as it is (nothing is written).
type listprefixReq struct {
	Dir     string   `json:"dir"`
	Base    string   `json:"base"`   // base64
	Lens    []int    `json:"lens"`   // prefix lengths of base
	All     bool     `json:"all"`    // all prefix lengths
	Others  []string `json:"others"` // base64 contents
	AsIs    bool     `json:"asis"`
	MageDir bool     `json:"magedir"` // isMagefilesDirectory
}

type listprefixRes struct {
	Lens     []int  `json:"lens"`
	Ok       string `json:"ok"` // one '0'/'1' per content (prefixes first, then others)
	Listed   string `json:"listed"`
	Err      string `json:"err,omitempty"`
	FirstErr string `json:"first_err,omitempty"`
}

func init() {
	moreOps["listprefix"] = func(r req) interface{} {
		var q listprefixReq
		if err := json.Unmarshal(r.Raw, &q); err != nil {
			return map[string]string{"error": err.Error()}
		}
		const name = "mage_output_file.go"
		path := filepath.Join(q.Dir, name)
		var res listprefixRes
		var okb, listedb bytes.Buffer
		one := func() {
			files, err := mage.Magefiles(q.Dir, "", "", "go", ioutil.Discard, q.MageDir, false)
			if err != nil {
				okb.WriteByte('0')
				listedb.WriteByte('0')
				if res.FirstErr == "" {
					res.FirstErr = err.Error()
				}
				return
			}
			okb.WriteByte('1')
			l := byte('0')
			for _, f := range files {
				if filepath.Base(f) == name {
					l = '1'
				}
			}
			listedb.WriteByte(l)
		}
		if q.AsIs {
			one()
			res.Ok, res.Listed = okb.String(), listedb.String()
			return res
		}
		base, err := base64.StdEncoding.DecodeString(q.Base)
		if err != nil {
			return map[string]string{"error": err.Error()}
		}
		lens := q.Lens
		if q.All {
			lens = nil
			for i := 0; i <= len(base); i++ {
				lens = append(lens, i)
			}
		}
		defer os.Remove(path)
		for _, n := range lens {
			if n > len(base) {
				n = len(base)
			}
			if err := ioutil.WriteFile(path, base[:n], 0666); err != nil {
				res.Err = err.Error()
				break
			}
			one()
		}
		for _, o := range q.Others {
			b, err := base64.StdEncoding.DecodeString(o)
			if err != nil {
				res.Err = err.Error()
				break
			}
			if err := ioutil.WriteFile(path, b, 0666); err != nil {
				res.Err = err.Error()
				break
			}
			one()
		}
		res.Lens = lens
		res.Ok, res.Listed = okb.String(), listedb.String()
		return res
	}
}
