package main

// op "magefiles" (property C10): calls mage.Magefiles in-process on a directory.
// op "buildctx": reports what go/build computed at start-up of THIS process
// (build.Default is a package variable initialised from the process environment),
// so the check can feed the actual values to the Coq model.
//
// The GOOS/GOARCH/CGO_ENABLED variants of the caller's environment are produced by
// starting one unitrun process per variant; nothing here touches the environment.

import (
	"bytes"
	"encoding/json"
	"go/build"
	"os"
	"path/filepath"
	"runtime"

	"github.com/magefile/mage/mage"
)

type magefilesReq struct {
	Cwd    string `json:"cwd"` // chdir here first when non-empty (for relative Dir)
	Dir    string `json:"dir"`
	Goos   string `json:"goos"`
	Goarch string `json:"goarch"`
	IsDir  bool   `json:"isdir"` // isMagefilesDirectory
}

type magefilesRes struct {
	Files []string `json:"files"` // base names, in the order returned
	Dirs  []string `json:"dirs"`  // distinct filepath.Dir of the returned paths
	Err   string   `json:"err"`
}

func init() {
	moreOps["magefiles"] = func(r req) interface{} {
		var q magefilesReq
		if err := json.Unmarshal(r.Raw, &q); err != nil {
			return map[string]string{"error": err.Error()}
		}
		if q.Cwd != "" {
			if err := os.Chdir(q.Cwd); err != nil {
				return map[string]string{"error": err.Error()}
			}
		}
		stderr := &bytes.Buffer{}
		files, err := mage.Magefiles(q.Dir, q.Goos, q.Goarch, "go", stderr, q.IsDir, false)
		res := magefilesRes{Files: []string{}, Dirs: []string{}}
		if err != nil {
			res.Err = err.Error()
			return res
		}
		seen := map[string]bool{}
		for _, f := range files {
			res.Files = append(res.Files, filepath.Base(f))
			d := filepath.Dir(f)
			if !seen[d] {
				seen[d] = true
				res.Dirs = append(res.Dirs, d)
			}
		}
		return res
	}
	moreOps["buildctx"] = func(r req) interface{} {
		d := build.Default
		tool := d.ToolTags
		if tool == nil {
			tool = []string{}
		}
		rel := d.ReleaseTags
		if rel == nil {
			rel = []string{}
		}
		return map[string]interface{}{
			"goos": d.GOOS, "goarch": d.GOARCH, "cgo": d.CgoEnabled, "compiler": d.Compiler,
			"tooltags": tool, "releasetags": rel, "buildtags": d.BuildTags,
			"hostos": runtime.GOOS, "hostarch": runtime.GOARCH,
		}
	}
}
