package main

// op "magefiles" (property C10): calls mage.Magefiles in-process on a directory.
// op "buildctx": reports what go/build computed at start-up of THIS process
// (build.Default is a package variable initialised from the process environment),
// so the check can feed the actual values to the Coq model.
//
// The GOOS/GOARCH/CGO_ENABLED variants of the caller's environment are produced by
// starting one unitrun process per variant; nothing here touches the environment.

import (
	"bytes"
	"encoding/json"
	"go/build"
	"os"
	"path/filepath"
	"runtime"
	"time"

	"github.com/magefile/mage/mage"
)

// op "magefiles_seq" (library use of mage): a SEQUENCE of mage.Magefiles / mage.Invoke calls in this one
// process over one directory, with edits between the calls that create, remove and rename nothing:
// files are rewritten in place; the modification times of the files and of the directory can be put
// back to what they were when the sequence started.
type seqEdit struct {
	Name string `json:"name"`
	Text string `json:"text"`
}

type seqStep struct {
	Edits            []seqEdit `json:"edits"`
	RestoreFileMtime bool      `json:"restore_file_mtime"`
	RestoreDirMtime  bool      `json:"restore_dir_mtime"`
	Goos             string    `json:"goos"`
	Goarch           string    `json:"goarch"`
	IsDir            bool      `json:"isdir"`
	Debug            bool      `json:"isdebug"`
	Invoke           bool      `json:"invoke"` // mage.Invoke with List instead of mage.Magefiles
}

type seqReq struct {
	Dir   string    `json:"dir"`
	Cache string    `json:"cache"`
	Steps []seqStep `json:"steps"`
}

type seqRes struct {
	Files  []string `json:"files"`
	Err    string   `json:"err"`
	Rc     int      `json:"rc"`
	Stdout string   `json:"stdout"`
	Stderr string   `json:"stderr"`
}

func runSeq(q seqReq) interface{} {
	var out []seqRes
	dirStat, err := os.Stat(q.Dir)
	if err != nil {
		return map[string]string{"error": err.Error()}
	}
	dirTime := dirStat.ModTime()
	for _, st := range q.Steps {
		for _, e := range st.Edits {
			p := filepath.Join(q.Dir, e.Name)
			old, err := os.Stat(p)
			if err != nil {
				return map[string]string{"error": err.Error()}
			}
			f, err := os.OpenFile(p, os.O_WRONLY|os.O_TRUNC, 0) // in place: the directory is not touched
			if err != nil {
				return map[string]string{"error": err.Error()}
			}
			f.WriteString(e.Text)
			f.Close()
			if st.RestoreFileMtime {
				os.Chtimes(p, time.Now(), old.ModTime())
			}
		}
		if st.RestoreDirMtime {
			os.Chtimes(q.Dir, time.Now(), dirTime)
		}
		res := seqRes{Files: []string{}}
		if st.Invoke {
			so, se := &bytes.Buffer{}, &bytes.Buffer{}
			res.Rc = mage.Invoke(mage.Invocation{Dir: q.Dir, WorkDir: q.Dir, List: true, Debug: st.Debug, Stdout: so, Stderr: se, Stdin: &bytes.Buffer{}, CacheDir: q.Cache, GoCmd: "go"})
			res.Stdout, res.Stderr = so.String(), se.String()
		} else {
			files, err := mage.Magefiles(q.Dir, st.Goos, st.Goarch, "go", &bytes.Buffer{}, st.IsDir, st.Debug)
			if err != nil {
				res.Err = err.Error()
			}
			for _, f := range files {
				res.Files = append(res.Files, filepath.Base(f))
			}
		}
		out = append(out, res)
	}
	return out
}

type magefilesReq struct {
	Cwd    string `json:"cwd"` // chdir here first when non-empty (for relative Dir)
	Dir    string `json:"dir"`
	Goos   string `json:"goos"`
	Goarch string `json:"goarch"`
	IsDir  bool   `json:"isdir"` // isMagefilesDirectory
	Debug  bool   `json:"isdebug"`
}

type magefilesRes struct {
	Files []string `json:"files"` // base names, in the order returned
	Dirs  []string `json:"dirs"`  // distinct filepath.Dir of the returned paths
	Err   string   `json:"err"`
}

func init() {
	moreOps["magefiles"] = func(r req) interface{} {
		var q magefilesReq
		if err := json.Unmarshal(r.Raw, &q); err != nil {
			return map[string]string{"error": err.Error()}
		}
		if q.Cwd != "" {
			if err := os.Chdir(q.Cwd); err != nil {
				return map[string]string{"error": err.Error()}
			}
		}
		stderr := &bytes.Buffer{}
		files, err := mage.Magefiles(q.Dir, q.Goos, q.Goarch, "go", stderr, q.IsDir, q.Debug)
		res := magefilesRes{Files: []string{}, Dirs: []string{}}
		if err != nil {
			res.Err = err.Error()
			return res
		}
		seen := map[string]bool{}
		for _, f := range files {
			res.Files = append(res.Files, filepath.Base(f))
			d := filepath.Dir(f)
			if !seen[d] {
				seen[d] = true
				res.Dirs = append(res.Dirs, d)
			}
		}
		return res
	}
	moreOps["magefiles_seq"] = func(r req) interface{} {
		var q seqReq
		if err := json.Unmarshal(r.Raw, &q); err != nil {
			return map[string]string{"error": err.Error()}
		}
		return runSeq(q)
	}
	moreOps["buildctx"] = func(r req) interface{} {
		d := build.Default
		tool := d.ToolTags
		if tool == nil {
			tool = []string{}
		}
		rel := d.ReleaseTags
		if rel == nil {
			rel = []string{}
		}
		return map[string]interface{}{
			"goos": d.GOOS, "goarch": d.GOARCH, "cgo": d.CgoEnabled, "compiler": d.Compiler,
			"tooltags": tool, "releasetags": rel, "buildtags": d.BuildTags,
			"hostos": runtime.GOOS, "hostarch": runtime.GOARCH,
		}
	}
}
