package main

// op "primary" (C18): parse.PrimaryPackage called N times in this process (fresh maps each time),
// followed by the two sort.Sort calls of mage/main.go and, optionally, mage.GenerateMainfile; the
// answer lists every DISTINCT projection seen with its count, so that any dependence on map
// iteration order (randomised per `range`) is visible.
//
// `go list` costs 2 processes per import and repetition.  The first `real_reps` repetitions use
// the real go command; the others use this binary itself as the go command: with
// VERIF_FAKEGO_TABLE set and `list` as first argument it answers the two `go list -f` questions
// of parse.getImportFrom from a table that was filled by the real `go list` beforehand.

import (
	"crypto/sha1"
	"encoding/hex"
	"encoding/json"
	"fmt"
	"go/parser"
	"go/token"
	"io/ioutil"
	"os"
	"os/exec"
	"path/filepath"
	"sort"
	"strings"

	"github.com/magefile/mage/mage"
	"github.com/magefile/mage/parse"
)

type primaryReq struct {
	Dir      string   `json:"dir"`
	Files    []string `json:"files"`
	Reps     int      `json:"reps"`
	RealReps int      `json:"real_reps"`
	Paths    []string `json:"paths"`
	Render   bool     `json:"render"`
}

type goListEntry struct {
	Dir   string   `json:"dir"`
	Name  string   `json:"name"`
	Files []string `json:"files"`
	Err   bool     `json:"err"`
}

type impProj struct {
	Unique string      `json:"unique"`
	Path   string      `json:"path"`
	Alias  string      `json:"alias"`
	Name   string      `json:"name"`
	Funcs  [][2]string `json:"funcs"` // TargetName, Package
}

type primaryProj struct {
	Err     bool        `json:"err"`
	Desc    string      `json:"desc"` // PkgInfo.Description
	Imports []impProj   `json:"imports"`
	Funcs   []string    `json:"funcs"`
	Aliases [][3]string `json:"aliases"` // key, TargetName, Package (sorted by key)
	Default *[2]string  `json:"default"`
	MainSHA string      `json:"main_sha1"`
}

type primaryDistinct struct {
	Count    int         `json:"count"`
	FirstRep int         `json:"first_rep"`
	ErrText  string      `json:"err_text,omitempty"`
	Proj     primaryProj `json:"proj"`
}

type pkgFuncs struct {
	Name  string      `json:"name"`
	Funcs [][2]string `json:"funcs"` // Receiver, Name in the order Package() found them
	Err   string      `json:"err,omitempty"`
}

const fakeGoEnv = "VERIF_FAKEGO_TABLE"

func fakeGoMain() {
	data, err := ioutil.ReadFile(os.Getenv(fakeGoEnv))
	if err != nil {
		fmt.Fprintln(os.Stderr, "fakego:", err)
		os.Exit(3)
	}
	table := map[string]goListEntry{}
	if err := json.Unmarshal(data, &table); err != nil {
		fmt.Fprintln(os.Stderr, "fakego:", err)
		os.Exit(3)
	}
	// go list -f <format> <importpath>
	if len(os.Args) != 5 || os.Args[2] != "-f" {
		fmt.Fprintln(os.Stderr, "fakego: unexpected arguments", os.Args[1:])
		os.Exit(3)
	}
	e, ok := table[os.Args[4]]
	if !ok || e.Err {
		fmt.Fprintf(os.Stderr, "package %s is not in std\n", os.Args[4])
		os.Exit(1)
	}
	switch os.Args[3] {
	case "{{.Dir}}||{{.Name}}":
		fmt.Println(e.Dir + "||" + e.Name)
	case `{{join .GoFiles "||"}}`:
		fmt.Println(strings.Join(e.Files, "||"))
	default:
		fmt.Fprintln(os.Stderr, "fakego: unexpected format", os.Args[3])
		os.Exit(3)
	}
	os.Exit(0)
}

func realGoList(dir string, paths []string) (map[string]goListEntry, error) {
	table := map[string]goListEntry{}
	for _, p := range paths {
		c := exec.Command("go", "list", "-f", `{{.Dir}}||{{.Name}}||{{join .GoFiles "||"}}`, p)
		c.Dir = dir
		out, err := c.Output()
		if err != nil {
			table[p] = goListEntry{Err: true}
			continue
		}
		parts := strings.Split(strings.TrimSpace(string(out)), "||")
		if len(parts) < 2 {
			return nil, fmt.Errorf("unexpected go list output for %s: %q", p, out)
		}
		table[p] = goListEntry{Dir: parts[0], Name: parts[1], Files: parts[2:]}
	}
	return table, nil
}

// fileDocs: for each file the Text() of its package comment as go/parser + go/ast see it (nil: none),
// independent of mage.
func fileDocs(dir string, files []string) map[string]*string {
	res := map[string]*string{}
	for _, name := range files {
		f, err := parser.ParseFile(token.NewFileSet(), filepath.Join(dir, name), nil, parser.ParseComments|parser.PackageClauseOnly)
		if err != nil || f.Doc == nil {
			res[name] = nil
			continue
		}
		t := f.Doc.Text()
		res[name] = &t
	}
	return res
}

func pkgFuncsOf(dir string, files []string) ([][2]string, error) {
	info, err := parse.Package(dir, files)
	if err != nil {
		return nil, err
	}
	res := [][2]string{}
	for _, f := range info.Funcs {
		res = append(res, [2]string{f.Receiver, f.Name})
	}
	return res, nil
}

func projectInfo(info *parse.PkgInfo) primaryProj {
	var p primaryProj
	p.Desc = info.Description
	p.Imports = []impProj{}
	p.Funcs = []string{}
	p.Aliases = [][3]string{}
	for _, f := range info.Funcs {
		p.Funcs = append(p.Funcs, f.TargetName())
	}
	for _, imp := range info.Imports {
		ip := impProj{Unique: imp.UniqueName, Path: imp.Path, Alias: imp.Alias, Name: imp.Name, Funcs: [][2]string{}}
		for _, f := range imp.Info.Funcs {
			ip.Funcs = append(ip.Funcs, [2]string{f.TargetName(), f.Package})
		}
		p.Imports = append(p.Imports, ip)
	}
	keys := make([]string, 0, len(info.Aliases))
	for k := range info.Aliases {
		keys = append(keys, k)
	}
	sort.Strings(keys)
	for _, k := range keys {
		f := info.Aliases[k]
		p.Aliases = append(p.Aliases, [3]string{k, f.TargetName(), f.Package})
	}
	if info.DefaultFunc != nil {
		p.Default = &[2]string{info.DefaultFunc.TargetName(), info.DefaultFunc.Package}
	}
	return p
}

func init() {
	if os.Getenv(fakeGoEnv) != "" && len(os.Args) >= 2 && os.Args[1] == "list" {
		fakeGoMain()
	}
	moreOps["primary"] = func(r req) interface{} {
		var q primaryReq
		if err := json.Unmarshal(r.Raw, &q); err != nil {
			return map[string]string{"error": err.Error()}
		}
		fail := func(err error) interface{} { return map[string]string{"error": err.Error()} }
		table, err := realGoList(q.Dir, q.Paths)
		if err != nil {
			return fail(err)
		}
		tmp, err := ioutil.TempDir("", "verif-primary-")
		if err != nil {
			return fail(err)
		}
		defer os.RemoveAll(tmp)
		tb, _ := json.Marshal(table)
		tablePath := filepath.Join(tmp, "table.json")
		if err := ioutil.WriteFile(tablePath, tb, 0600); err != nil {
			return fail(err)
		}
		self, err := os.Executable()
		if err != nil {
			return fail(err)
		}
		os.Setenv(fakeGoEnv, tablePath)
		defer os.Unsetenv(fakeGoEnv)

		pkgs := map[string]pkgFuncs{}
		for p, e := range table {
			if e.Err {
				pkgs[p] = pkgFuncs{Err: "go list failed"}
				continue
			}
			fs, err := pkgFuncsOf(e.Dir, e.Files)
			if err != nil {
				pkgs[p] = pkgFuncs{Name: e.Name, Err: err.Error()}
				continue
			}
			pkgs[p] = pkgFuncs{Name: e.Name, Funcs: fs}
		}
		locals, lerr := pkgFuncsOf(q.Dir, q.Files)
		localsErr := ""
		if lerr != nil {
			localsErr = lerr.Error()
		}

		distinct := []*primaryDistinct{}
		index := map[string]*primaryDistinct{}
		mainPath := filepath.Join(tmp, "main.go")
		for rep := 0; rep < q.Reps; rep++ {
			gocmd := self
			if rep < q.RealReps {
				gocmd = "go"
			}
			info, err := parse.PrimaryPackage(gocmd, q.Dir, q.Files)
			var p primaryProj
			errText := ""
			if err != nil {
				p = primaryProj{Err: true, Imports: []impProj{}, Funcs: []string{}, Aliases: [][3]string{}}
				errText = err.Error()
			} else {
				// mage/main.go: reproducible output for deterministic builds
				sort.Sort(info.Funcs)
				sort.Sort(info.Imports)
				p = projectInfo(info)
				if q.Render {
					if err := mage.GenerateMainfile("mage", mainPath, info); err != nil {
						return fail(err)
					}
					b, err := ioutil.ReadFile(mainPath)
					if err != nil {
						return fail(err)
					}
					h := sha1.Sum(b)
					p.MainSHA = hex.EncodeToString(h[:])
				}
			}
			kb, _ := json.Marshal(p)
			k := string(kb)
			if d, ok := index[k]; ok {
				d.Count++
			} else {
				d := &primaryDistinct{Count: 1, FirstRep: rep, ErrText: errText, Proj: p}
				index[k] = d
				distinct = append(distinct, d)
			}
		}
		return map[string]interface{}{
			"table": table, "pkgs": pkgs, "locals": locals, "locals_err": localsErr, "docs": fileDocs(q.Dir, q.Files),
			"distinct": distinct, "reps": q.Reps, "real_reps": q.RealReps, "pid": os.Getpid(),
		}
	}
}
