package main

// op "sh": one call of a function of package sh against the helper child (C15).
//
// All strings of the request are hex (arbitrary bytes).  The op
//   - sets / unsets the requested process environment variables (and restores them afterwards),
//   - replaces os.Stdin / os.Stdout / os.Stderr by files for the duration of the call (package sh
//     reads these variables at call time), so that what the child reads and what reaches the
//     caller's standard streams is observable,
//   - calls the function, and reports the returned values, mg.ExitStatus / sh.ExitStatus /
//     sh.CmdRan of the returned error, the captured streams, os.Environ() at call time (the
//     standard library's own answer) and the report file written by the helper child (if any).
//
// fn "raw": sh.CmdRan / sh.ExitStatus / mg.ExitStatus applied to a raw error value: the error of
// an os/exec command run by the op itself, mg.Fatal, a plain error, nil, a custom ExitStatus() type.

import (
	"bytes"
	"encoding/hex"
	"encoding/json"
	"errors"
	"io"
	"io/ioutil"
	"os"
	"os/exec"
	"path/filepath"
	"strconv"
	"strings"
	"syscall"
	"time"
	"unsafe"

	"github.com/magefile/mage/mg"
	"github.com/magefile/mage/sh"
)

type c15Req struct {
	Fn        string            `json:"fn"`
	Env       map[string]string `json:"env"` // hex -> hex; absent = nil map
	Cmd       string            `json:"cmd"`
	Args      []string          `json:"args"`
	Setenv    map[string]string `json:"setenv"` // hex -> hex
	Unset     []string          `json:"unset"`  // hex
	Stdin     string            `json:"stdin"`  // hex: content of the caller's stdin
	So        string            `json:"so"`     // Exec: nil | buf | os | fail:N (a writer that accepts N bytes, then fails)
	Se        string            `json:"se"`
	Dump      string            `json:"dump"`       // path of the helper child's report
	Tmp       string            `json:"tmp"`        // directory for the capture files
	Streams   string            `json:"streams"`    // "" / "file": os.Std* become files; "pipe": pipes
	Wait      string            `json:"wait"`       // path: after the call wait (<= 60 s) for this file (written by the child's late descendant) before reading the captures
	Calls     []c15Req          `json:"calls"`      // fn "group": the calls that run concurrently (fields fn, env, cmd, args, so, se, dump, hold)
	Plan      []string          `json:"plan"`       // fn "group": events "s<i>" start call i and wait until its child has reported (or the call returned), "r<i>" release child i and wait for call i to return
	Hold      string            `json:"hold"`       // group member: the file its child waits for
	StdinKind string            `json:"stdin_kind"` // what os.Stdin is for the call: file (default) | devnull | socket | pty | dir | closed
	Kind      string            `json:"kind"`       // raw: child | fatal | fatalf | plain | nil | custom
	Code      int               `json:"code"`
}

type c15Res struct {
	Error        string          `json:"error,omitempty"`
	Ran          *bool           `json:"ran"`
	ErrNil       bool            `json:"err_nil"`
	HasStatus    bool            `json:"has_status"`
	MgStatus     int             `json:"mg_status"`
	ShStatus     int             `json:"sh_status"`
	ShCmdRan     bool            `json:"sh_cmdran"`
	ErrText      string          `json:"err_text"`
	Text         string          `json:"text"`
	OsStdout     string          `json:"os_stdout"`
	OsStderr     string          `json:"os_stderr"`
	BufOut       string          `json:"buf_out"`
	BufErr       string          `json:"buf_err"`
	Environ      []string        `json:"environ"`
	Dump         json.RawMessage `json:"dump"`
	Hung         int             `json:"hung"`                    // 0: the call returned by itself; 1: only after the far side of its stdin was closed; 2: never
	StdinRest    string          `json:"stdin_rest"`              // fn "seq": what is left on the caller's stdin after the sequence
	StdinKind    string          `json:"stdin_kind"`              // the kind actually used (pty falls back to file where no pty is available)
	Group        []c15Res        `json:"group,omitempty"`         // fn "group": one answer per call
	EnvironAfter []string        `json:"environ_after,omitempty"` // fn "group": os.Environ() after all calls returned
	// raw: what the standard library says about the error
	IsExitError bool `json:"is_exit_error"`
	Exited      bool `json:"exited"`
	ExitCode    int  `json:"exit_code"`
	Signaled    bool `json:"signaled"`
}

type c15Custom struct{ code int }

func (c c15Custom) Error() string   { return "custom" }
func (c c15Custom) ExitStatus() int { return c.code }

func c15Unhex(s string) string {
	b, err := hex.DecodeString(s)
	if err != nil {
		panic("bad hex " + s)
	}
	return string(b)
}

func c15Hex(s string) string { return hex.EncodeToString([]byte(s)) }

// When C15_FDGUARD names a directory (the C15 check sets it), the protocol of this program is moved off
// the file descriptors 0 and 1 before main() starts: os.Stdin / os.Stdout (which main reads AFTER all
// init functions) become duplicates of them, and descriptors 0 and 1 themselves are pointed at guard
// files.  A version of package sh that remembers the process's standard streams from start-up (instead of
// reading os.Stdin / os.Stdout at the time of the call) then hands a command the guard files - which the
// check notices as wrong streams - instead of letting it eat the request stream or write into the answers.
var c15KeepStd []*os.File

func init() {
	dir := os.Getenv("C15_FDGUARD")
	if dir == "" {
		return
	}
	in, err1 := syscall.Dup(0)
	out, err2 := syscall.Dup(1)
	gi, err3 := os.Open(filepath.Join(dir, "guard-stdin"))
	go_, err4 := os.OpenFile(filepath.Join(dir, "guard-stdout"), os.O_WRONLY|os.O_APPEND|os.O_CREATE, 0600)
	if err1 != nil || err2 != nil || err3 != nil || err4 != nil {
		return
	}
	syscall.CloseOnExec(in)
	syscall.CloseOnExec(out)
	if syscall.Dup3(int(gi.Fd()), 0, 0) != nil || syscall.Dup3(int(go_.Fd()), 1, 0) != nil {
		return
	}
	gi.Close()
	go_.Close()
	c15KeepStd = []*os.File{os.Stdin, os.Stdout} // keep the Files of descriptors 0 and 1 alive: their finalizers would close them
	os.Stdin = os.NewFile(uintptr(in), "/dev/stdin")
	os.Stdout = os.NewFile(uintptr(out), "/dev/stdout")
}

func init() {
	moreOps["sh"] = func(r req) interface{} {
		var q c15Req
		if err := json.Unmarshal(r.Raw, &q); err != nil {
			return c15Res{Error: err.Error()}
		}
		return c15Do(q)
	}
}

func c15Do(q c15Req) (res c15Res) {
	// process environment, restored afterwards
	type old struct {
		k, v string
		ok   bool
	}
	var olds []old
	touch := func(k string) {
		v, ok := os.LookupEnv(k)
		olds = append(olds, old{k, v, ok})
	}
	defer func() {
		for i := len(olds) - 1; i >= 0; i-- {
			if olds[i].ok {
				os.Setenv(olds[i].k, olds[i].v)
			} else {
				os.Unsetenv(olds[i].k)
			}
		}
	}()
	for _, k := range q.Unset {
		touch(c15Unhex(k))
		os.Unsetenv(c15Unhex(k))
	}
	for k, v := range q.Setenv {
		touch(c15Unhex(k))
		if err := os.Setenv(c15Unhex(k), c15Unhex(v)); err != nil {
			return c15Res{Error: "setenv: " + err.Error()}
		}
	}
	for _, e := range os.Environ() {
		res.Environ = append(res.Environ, c15Hex(e))
	}
	if q.Dump != "" {
		os.Remove(q.Dump)
	}

	var env map[string]string
	if q.Env != nil {
		env = map[string]string{}
		for k, v := range q.Env {
			env[c15Unhex(k)] = c15Unhex(v)
		}
	}
	cmd := c15Unhex(q.Cmd)
	args := make([]string, len(q.Args))
	for i := range q.Args {
		args[i] = c15Unhex(q.Args[i])
	}

	if q.Fn == "raw" {
		var err error
		switch q.Kind {
		case "child":
			c := exec.Command(cmd, args...)
			err = c.Run()
		case "fatal":
			err = mg.Fatal(q.Code, "fatal")
		case "fatalf":
			err = mg.Fatalf(q.Code, "fatal %d", q.Code)
		case "plain":
			err = errors.New("plain")
		case "custom":
			err = c15Custom{q.Code}
		case "nil":
			err = nil
		default:
			return c15Res{Error: "bad raw kind " + q.Kind}
		}
		c15FillErr(&res, err)
		if ee, ok := err.(*exec.ExitError); ok {
			res.IsExitError = true
			res.Exited = ee.Exited()
			res.ExitCode = ee.ExitCode()
			if ws, ok := ee.Sys().(syscall.WaitStatus); ok {
				res.Signaled = ws.Signaled()
			}
		}
		res.Dump = c15ReadDump(q.Dump)
		return res
	}

	if q.Fn == "group" {
		return c15Group(q, res)
	}
	if q.Fn == "seq" {
		return c15Seq(q, res)
	}

	// standard streams of the caller: os.Stdin / os.Stdout / os.Stderr are REASSIGNED for this call, to files or
	// (streams == "pipe") to pipes whose other ends the op serves
	var fin, fout, ferr *os.File
	var outCh, errCh chan []byte
	var unblock func() // closes the far side of a socket / pty stdin: a call blocked on the caller's stdin gets EOF
	if q.Streams == "pipe" {
		ir, iw, err := os.Pipe()
		if err != nil {
			return c15Res{Error: err.Error()}
		}
		fin = ir
		payload := []byte(c15Unhex(q.Stdin))
		go func() { iw.Write(payload); iw.Close() }()
		collect := func() (*os.File, chan []byte, error) {
			r, w, err := os.Pipe()
			if err != nil {
				return nil, nil, err
			}
			ch := make(chan []byte, 1)
			go func() { b, _ := ioutil.ReadAll(r); r.Close(); ch <- b }()
			return w, ch, nil
		}
		if fout, outCh, err = collect(); err != nil {
			return c15Res{Error: err.Error()}
		}
		if ferr, errCh, err = collect(); err != nil {
			return c15Res{Error: err.Error()}
		}
	} else {
		inPath := filepath.Join(q.Tmp, "c15-stdin")
		if err := ioutil.WriteFile(inPath, []byte(c15Unhex(q.Stdin)), 0600); err != nil {
			return c15Res{Error: err.Error()}
		}
		var err error
		var cleanup func()
		if fin, cleanup, res.StdinKind, err = c15Stdin(q.StdinKind, inPath, []byte(c15Unhex(q.Stdin)), q.Tmp); err != nil {
			return c15Res{Error: err.Error()}
		}
		if cleanup != nil {
			defer cleanup()
			unblock = cleanup
		}
		// fresh files per request: a late write of a descendant of an earlier request's child must not
		// reach this request's captures
		if fout, err = ioutil.TempFile(q.Tmp, "c15-stdout-"); err != nil {
			return c15Res{Error: err.Error()}
		}
		if ferr, err = ioutil.TempFile(q.Tmp, "c15-stderr-"); err != nil {
			return c15Res{Error: err.Error()}
		}
		defer os.Remove(fout.Name())
		defer os.Remove(ferr.Name())
	}
	if q.Wait != "" {
		os.Remove(q.Wait)
	}
	oin, oout, oerr := os.Stdin, os.Stdout, os.Stderr
	os.Stdin, os.Stdout, os.Stderr = fin, fout, ferr
	restore := func() {
		os.Stdin, os.Stdout, os.Stderr = oin, oout, oerr
	}

	var rerr error
	var text string
	var bo, be bytes.Buffer
	res.Hung = c15Watchdog(unblock, func() {
		defer restore()
		switch q.Fn {
		case "Run":
			rerr = sh.Run(cmd, args...)
		case "RunV":
			rerr = sh.RunV(cmd, args...)
		case "RunWith":
			rerr = sh.RunWith(env, cmd, args...)
		case "RunWithV":
			rerr = sh.RunWithV(env, cmd, args...)
		case "Output":
			text, rerr = sh.Output(cmd, args...)
		case "OutputWith":
			text, rerr = sh.OutputWith(env, cmd, args...)
		case "Exec":
			pick := func(s string, b *bytes.Buffer, f *os.File) io.Writer {
				switch {
				case s == "buf":
					return b
				case s == "os":
					return f
				case strings.HasPrefix(s, "fail:"):
					// accepts n bytes (kept in b), then every Write fails
					n, _ := strconv.Atoi(s[5:])
					return &c15FailWriter{limit: n, got: b}
				}
				return nil
			}
			ran, e := sh.Exec(env, pick(q.So, &bo, os.Stdout), pick(q.Se, &be, os.Stderr), cmd, args...)
			rerr = e
			res.Ran = &ran
		default:
			res.Error = "bad fn " + q.Fn
		}
	})
	if res.Hung == 2 {
		res.Error = ""
		fin.Close()
		fout.Close()
		ferr.Close()
		return res // the call never returned (its goroutine is abandoned)
	}
	fin.Close()
	fout.Close()
	ferr.Close()
	if res.Error != "" {
		return res
	}
	if q.Wait != "" && json.Valid(c15PeekDump(q.Dump)) {
		// the child ran and left a descendant behind: let it finish its late writes
		for i := 0; i < 6000; i++ {
			if _, err := os.Stat(q.Wait); err == nil {
				break
			}
			time.Sleep(10 * time.Millisecond)
		}
		os.Remove(q.Wait)
	}
	c15FillErr(&res, rerr)
	res.Text = c15Hex(text)
	var b []byte
	if outCh != nil {
		b = <-outCh // all write ends are closed: ours above, the child's with its exit
	} else {
		b, _ = ioutil.ReadFile(fout.Name())
	}
	res.OsStdout = hex.EncodeToString(b)
	if errCh != nil {
		b = <-errCh
	} else {
		b, _ = ioutil.ReadFile(ferr.Name())
	}
	res.OsStderr = hex.EncodeToString(b)
	res.BufOut = hex.EncodeToString(bo.Bytes())
	res.BufErr = hex.EncodeToString(be.Bytes())
	res.Dump = c15ReadDump(q.Dump)
	return res
}

// c15FailWriter accepts limit bytes, then fails (a full disk, a closed connection).
type c15FailWriter struct {
	limit int
	got   *bytes.Buffer
}

func (w *c15FailWriter) Write(p []byte) (int, error) {
	room := w.limit - w.got.Len()
	if len(p) <= room {
		return w.got.Write(p)
	}
	if room > 0 {
		w.got.Write(p[:room])
	} else {
		room = 0
	}
	return room, errors.New("c15 writer: no space left")
}

func c15FillErr(res *c15Res, err error) {
	res.ErrNil = err == nil
	if err != nil {
		res.ErrText = err.Error()
		_, res.HasStatus = err.(interface{ ExitStatus() int })
	}
	res.MgStatus = mg.ExitStatus(err)
	res.ShStatus = sh.ExitStatus(err)
	res.ShCmdRan = sh.CmdRan(err)
}

func c15PeekDump(p string) []byte {
	if p == "" {
		return nil
	}
	b, _ := ioutil.ReadFile(p)
	return b
}

func c15ReadDump(p string) json.RawMessage {
	if p == "" {
		return json.RawMessage("null")
	}
	b, err := ioutil.ReadFile(p)
	if err != nil || !json.Valid(b) {
		return json.RawMessage("null")
	}
	os.Remove(p)
	return json.RawMessage(b)
}

// c15Invoke is one call of a group: results only (the standard streams are shared by the group).
func c15Invoke(q c15Req) (res c15Res) {
	var env map[string]string
	if q.Env != nil {
		env = map[string]string{}
		for k, v := range q.Env {
			env[c15Unhex(k)] = c15Unhex(v)
		}
	}
	cmd := c15Unhex(q.Cmd)
	args := make([]string, len(q.Args))
	for i := range q.Args {
		args[i] = c15Unhex(q.Args[i])
	}
	var rerr error
	var text string
	var bo, be bytes.Buffer
	switch q.Fn {
	case "Run":
		rerr = sh.Run(cmd, args...)
	case "RunV":
		rerr = sh.RunV(cmd, args...)
	case "RunWith":
		rerr = sh.RunWith(env, cmd, args...)
	case "RunWithV":
		rerr = sh.RunWithV(env, cmd, args...)
	case "Output":
		text, rerr = sh.Output(cmd, args...)
	case "OutputWith":
		text, rerr = sh.OutputWith(env, cmd, args...)
	case "Exec":
		pick := func(s string, b *bytes.Buffer) io.Writer {
			if s == "buf" {
				return b
			}
			return nil
		}
		ran, e := sh.Exec(env, pick(q.So, &bo), pick(q.Se, &be), cmd, args...)
		rerr = e
		res.Ran = &ran
	default:
		res.Error = "bad fn " + q.Fn
		return res
	}
	c15FillErr(&res, rerr)
	res.Text = c15Hex(text)
	res.BufOut = hex.EncodeToString(bo.Bytes())
	res.BufErr = hex.EncodeToString(be.Bytes())
	res.Dump = c15ReadDump(q.Dump)
	return res
}

// c15Group runs the calls of q concurrently, overlapping as the plan says: the helper child of a call reports
// (its dump file appears) and then waits for its hold file, so "start A, start B, release A, release B" really is
// A and B in flight at the same time, A finishing first.
func c15Group(q c15Req, res c15Res) c15Res {
	fin, err := os.Open(os.DevNull)
	if err != nil {
		return c15Res{Error: err.Error()}
	}
	fout, err := ioutil.TempFile(q.Tmp, "c15-gout-")
	if err != nil {
		return c15Res{Error: err.Error()}
	}
	ferr, err := ioutil.TempFile(q.Tmp, "c15-gerr-")
	if err != nil {
		return c15Res{Error: err.Error()}
	}
	defer os.Remove(fout.Name())
	defer os.Remove(ferr.Name())
	for _, c := range q.Calls {
		os.Remove(c.Dump)
		os.Remove(c.Hold)
	}
	oin, oout, oerr := os.Stdin, os.Stdout, os.Stderr
	os.Stdin, os.Stdout, os.Stderr = fin, fout, ferr
	n := len(q.Calls)
	results := make([]c15Res, n)
	done := make([]chan struct{}, n)
	released := make([]bool, n)
	release := func(i int) {
		if !released[i] {
			released[i] = true
			ioutil.WriteFile(q.Calls[i].Hold, []byte("go"), 0644)
		}
	}
	waitDone := func(i int) {
		if done[i] == nil {
			return
		}
		select {
		case <-done[i]:
		case <-time.After(60 * time.Second):
		}
	}
	for _, ev := range q.Plan {
		if len(ev) < 2 {
			continue
		}
		i, err := strconv.Atoi(ev[1:])
		if err != nil || i < 0 || i >= n {
			continue
		}
		switch ev[0] {
		case 's':
			if done[i] != nil {
				continue
			}
			done[i] = make(chan struct{})
			go func(i int) {
				defer close(done[i])
				results[i] = c15Invoke(q.Calls[i])
			}(i)
			// until the child has reported (it is running and holds) or the call is over
		wait:
			for k := 0; k < 15000; k++ {
				if _, err := os.Stat(q.Calls[i].Dump); err == nil {
					break
				}
				select {
				case <-done[i]:
					break wait
				default:
				}
				time.Sleep(2 * time.Millisecond)
			}
		case 'r':
			release(i)
			waitDone(i)
		}
	}
	for i := range q.Calls {
		release(i)
	}
	for i := range q.Calls {
		waitDone(i)
	}
	os.Stdin, os.Stdout, os.Stderr = oin, oout, oerr
	fin.Close()
	fout.Close()
	ferr.Close()
	for _, e := range os.Environ() {
		res.EnvironAfter = append(res.EnvironAfter, c15Hex(e))
	}
	b, _ := ioutil.ReadFile(fout.Name())
	res.OsStdout = hex.EncodeToString(b)
	b, _ = ioutil.ReadFile(ferr.Name())
	res.OsStderr = hex.EncodeToString(b)
	res.Group = results
	for _, c := range q.Calls {
		os.Remove(c.Hold)
	}
	return res
}

// c15Stdin makes the file that os.Stdin becomes for one call: the KIND of file behind the descriptor is a
// dimension (a regular file, /dev/null, one end of a unix socket pair, the slave side of a pty, a directory, a
// closed file).  The payload is what a reader of that descriptor gets (nothing for devnull / dir / closed).
func c15Stdin(kind, inPath string, payload []byte, tmp string) (f *os.File, cleanup func(), used string, err error) {
	switch kind {
	case "devnull":
		f, err = os.Open(os.DevNull)
		return f, nil, kind, err
	case "dir":
		f, err = os.Open(tmp)
		return f, nil, kind, err
	case "closed":
		if f, err = os.Open(inPath); err == nil {
			f.Close()
		}
		return f, nil, kind, err
	case "socket":
		fds, e := syscall.Socketpair(syscall.AF_UNIX, syscall.SOCK_STREAM, 0)
		if e != nil {
			return nil, nil, kind, e
		}
		syscall.CloseOnExec(fds[1])
		a, b := os.NewFile(uintptr(fds[0]), "c15-socket-stdin"), os.NewFile(uintptr(fds[1]), "c15-socket-peer")
		// synchronously, before the call (the payload fits the socket buffer): a goroutine that shuts down a RAW
		// descriptor number late could hit the socket of the next request, which reuses the number
		b.Write(payload)
		syscall.Shutdown(fds[1], syscall.SHUT_WR)
		return a, func() { b.Close() }, kind, nil
	case "pty":
		m, e := os.OpenFile("/dev/ptmx", os.O_RDWR|syscall.O_NOCTTY, 0)
		if e == nil {
			var n uint32
			var unlock int32
			_, _, e1 := syscall.Syscall(syscall.SYS_IOCTL, m.Fd(), syscall.TIOCSPTLCK, uintptr(unsafe.Pointer(&unlock)))
			_, _, e2 := syscall.Syscall(syscall.SYS_IOCTL, m.Fd(), syscall.TIOCGPTN, uintptr(unsafe.Pointer(&n)))
			if e1 == 0 && e2 == 0 {
				if sl, e3 := os.OpenFile("/dev/pts/"+strconv.Itoa(int(n)), os.O_RDWR|syscall.O_NOCTTY, 0); e3 == nil {
					// a line typed on the terminal, then end of input (^D at the start of a line)
					m.Write(append(append([]byte{}, payload...), 4)) // fits the terminal's input queue
					return sl, func() { m.Close() }, kind, nil
				}
			}
			m.Close()
		}
		// no pty here: a regular file
	}
	f, err = os.Open(inPath)
	return f, nil, "file", err
}

// c15Seq runs the calls of q one after the other in this process with ONE os.Stdin for the whole sequence (a file,
// a pipe with everything written up front, or a pty with the lines typed ahead): every child reads only its own
// portion (helper --c15-read), the remainder must still be there for the next command and, at the end, for the caller.
func c15Seq(q c15Req, res c15Res) c15Res {
	payload := []byte(c15Unhex(q.Stdin))
	var fin *os.File
	var cleanup func()
	var err error
	switch q.StdinKind {
	case "pipe":
		r, w, e := os.Pipe()
		if e != nil {
			return c15Res{Error: e.Error()}
		}
		w.Write(payload) // fits the pipe buffer
		w.Close()
		fin = r
		res.StdinKind = "pipe"
	default:
		inPath := filepath.Join(q.Tmp, "c15-seq-stdin")
		if err = ioutil.WriteFile(inPath, payload, 0600); err != nil {
			return c15Res{Error: err.Error()}
		}
		if fin, cleanup, res.StdinKind, err = c15Stdin(q.StdinKind, inPath, payload, q.Tmp); err != nil {
			return c15Res{Error: err.Error()}
		}
	}
	if cleanup != nil {
		defer cleanup()
	}
	fout, err := ioutil.TempFile(q.Tmp, "c15-sout-")
	if err != nil {
		return c15Res{Error: err.Error()}
	}
	ferr, err := ioutil.TempFile(q.Tmp, "c15-serr-")
	if err != nil {
		return c15Res{Error: err.Error()}
	}
	defer os.Remove(fout.Name())
	defer os.Remove(ferr.Name())
	for _, c := range q.Calls {
		os.Remove(c.Dump)
	}
	oin, oout, oerr := os.Stdin, os.Stdout, os.Stderr
	os.Stdin, os.Stdout, os.Stderr = fin, fout, ferr
	results := make([]c15Res, len(q.Calls))
	for i := range q.Calls {
		i := i
		if h := c15Watchdog(cleanup, func() { results[i] = c15Invoke(q.Calls[i]) }); h != 0 {
			res.Hung = h
			if h == 2 {
				results[i] = c15Res{Hung: 2}
				break
			}
			results[i].Hung = h
		}
	}
	os.Stdin, os.Stdout, os.Stderr = oin, oout, oerr
	var rest []byte
	if res.Hung == 0 {
		rest, _ = ioutil.ReadAll(fin)
	}
	res.StdinRest = hex.EncodeToString(rest)
	fin.Close()
	fout.Close()
	ferr.Close()
	b, _ := ioutil.ReadFile(fout.Name())
	res.OsStdout = hex.EncodeToString(b)
	b, _ = ioutil.ReadFile(ferr.Name())
	res.OsStderr = hex.EncodeToString(b)
	res.Group = results
	for _, e := range os.Environ() {
		res.EnvironAfter = append(res.EnvironAfter, c15Hex(e))
	}
	return res
}

// c15Watchdog runs f; a call of package sh must not wait for more input on the caller's stdin than the command
// reads.  After 20 s without a return the far side of a socket / pty stdin is closed (unblock), after 20 s more the
// call is given up.  0: returned by itself, 1: returned after unblock, 2: never returned (f's goroutine is abandoned).
func c15Watchdog(unblock func(), f func()) int {
	done := make(chan struct{})
	go func() {
		defer close(done)
		f()
	}()
	select {
	case <-done:
		return 0
	case <-time.After(20 * time.Second):
	}
	if unblock != nil {
		unblock()
	}
	select {
	case <-done:
		return 1
	case <-time.After(20 * time.Second):
	}
	return 2
}
