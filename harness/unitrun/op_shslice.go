package main

// op "shslice" (C16): runs one history of sh calls in-process against the real sh package, with
// caller slices built over arrays of chosen length (so len, cap and offset are all chosen), and
// reports per operation the argv every child received, the text handed back, and a deep snapshot
// of EVERY caller-visible array in full and of the env map.

import (
	"bufio"
	"bytes"
	"encoding/hex"
	"encoding/json"
	"io/ioutil"
	"log"
	"os"
	"os/exec"
	"path/filepath"
	"sort"
	"sync"
	"sync/atomic"
	"time"

	"github.com/magefile/mage/sh"
)

type shSlice struct {
	Nil bool `json:"nil"`
	ID  int  `json:"id"`
	Off int  `json:"off"`
	Len int  `json:"len"`
	Cap int  `json:"cap"`
}

type shClosure struct {
	Kind  string  `json:"kind"` // "run" | "out"
	Cmd   string  `json:"cmd"`
	Baked shSlice `json:"baked"`
}

type shOp struct {
	Op    string   `json:"op"`    // setenv | mk | call | direct | par
	Kind  string   `json:"kind"`  // mk: "run" | "out"
	Baked shSlice  `json:"baked"` // mk
	Act   string   `json:"act"`   // fs: remove | restore | chmod-x | chmod+x
	Path  string   `json:"path"`  // fs
	Epoch string   `json:"epoch"` // fs: new value of VERIF_FS_EPOCH
	Probe []string `json:"probe"` // call/direct/par: command words to look up right before the call
	Unset bool     `json:"unset"` // setenv: os.Unsetenv(K) instead
	// env-map entries with arbitrary bytes (hex name, hex value): empty name, '=' or NUL in a name, NUL or
	// non-UTF-8 bytes in a value, very long values; merged into Emap
	EmapOdd [][2]string `json:"emap_odd"`
	// par: heterogeneous calls (closure calls and direct calls with env maps side by side)
	Calls  []shOp            `json:"calls"`
	K      string            `json:"k"`
	V      string            `json:"v"`
	C      int               `json:"c"`
	Extra  shSlice           `json:"extra"`
	Fn     string            `json:"fn"`
	Emap   map[string]string `json:"emap"`
	Cmd    string            `json:"cmd"`
	Args   shSlice           `json:"args"`
	A      shSlice           `json:"a"`
	B      shSlice           `json:"b"`
	Extras []shSlice         `json:"extras"` // par: one call per entry, all at once (default: a, b)
	// par: "" = the calls go to closure C; "Output"/"Run" = direct sh.Output/sh.Run(Cmd, slice...) (reference behaviour)
	ParFn   string `json:"parfn"`
	BoundMs int    `json:"bound_ms"` // par: how long to wait for ALL children to be alive at once
	// par, staggered start: Stagger[i] (may be null) is an os.Setenv done right before call i is started,
	// after the children of all earlier calls are alive and held - a Setenv BETWEEN the starts of
	// overlapping calls.  Without Stagger all calls are released together.
	Stagger []*shSetenv `json:"stagger"`
	Reps    int         `json:"reps"`
}

type shSetenv struct {
	K string `json:"k"`
	V string `json:"v"`
}

type shReq struct {
	OutFile  string            `json:"outfile"`
	Gate     string            `json:"gate"`
	Clear    []string          `json:"clear"`
	Env      map[string]string `json:"env"`
	Arrays   [][]string        `json:"arrays"`
	Closures []shClosure       `json:"closures"`
	Ops      []shOp            `json:"ops"`
}

type shRep struct {
	Lines [][]string `json:"lines"`
	// overlap as an observable: how many children were alive AT THE SAME TIME (each reports its argv when
	// it starts and then waits for the gate, which the harness opens only when all have reported).
	// Stalled: after the bound some call had neither started its child nor returned while another
	// call's child was still waiting, i.e. a call was held back by another call.
	Alive    int           `json:"alive"`
	Returned int           `json:"returned_before_gate"`
	Stalled  bool          `json:"stalled"`
	WaitedMs int64         `json:"waited_ms"`
	Outs     []*string     `json:"outs"`
	Errs     []string      `json:"errs"`
	Status   []int         `json:"status"`    // sh.ExitStatus of each call\'s error
	EmapsHex [][][2]string `json:"emaps_hex"` // per call: its env map after the call (direct calls)
	Snap     [][]string    `json:"snap"`
}

type shObs struct {
	Argv   [][]string `json:"argv"`
	Out    *string    `json:"out"`
	Err    string     `json:"err"`
	Status int        `json:"status"` // sh.ExitStatus of the returned error (0: nil)
	Stdout string     `json:"stdout"` // what reached the process's os.Stdout during this call
	// exec.LookPath's answers for the probed command words at the moment of the call (the operating
	// system's side of "which program does this word name now"; null: none / not executable)
	Lookups map[string]*string `json:"lookups,omitempty"`
	Snap    [][]string         `json:"snap"`
	Emap    map[string]string  `json:"emap"`
	EmapNil bool               `json:"emap_nil"`
	EmapHex [][2]string        `json:"emap_hex"` // the env map after the call, byte-exact (hex), sorted
	Reps    []shRep            `json:"reps,omitempty"`
}

type shRes struct {
	Error string     `json:"error,omitempty"`
	Snap0 [][]string `json:"snap0"`
	Obs   []shObs    `json:"obs"`
}

type shFn func(args ...string) (*string, error)

func shMk(arrays [][]string, s shSlice) []string {
	if s.Nil {
		return nil
	}
	return arrays[s.ID][s.Off : s.Off+s.Len : s.Off+s.Cap]
}

func shSnap(arrays [][]string) [][]string {
	out := make([][]string, len(arrays))
	for i, a := range arrays {
		out[i] = append([]string{}, a...)
	}
	return out
}

func shLines(path string) [][]string {
	out := [][]string{}
	f, err := os.Open(path)
	if err != nil {
		return out
	}
	defer f.Close()
	sc := bufio.NewScanner(f)
	sc.Buffer(make([]byte, 1<<20), 1<<20)
	for sc.Scan() {
		var m map[string][]string
		if json.Unmarshal(sc.Bytes(), &m) == nil {
			out = append(out, m["argv"])
		}
	}
	return out
}

func errStr(err error) string {
	if err == nil {
		return ""
	}
	return err.Error()
}

func shMkClosure(arrays [][]string, kind, cmd string, b shSlice) shFn {
	baked := shMk(arrays, b)
	if kind == "out" {
		f := sh.OutCmd(cmd, baked...)
		return func(args ...string) (*string, error) {
			s, err := f(args...)
			return &s, err
		}
	}
	f := sh.RunCmd(cmd, baked...)
	return func(args ...string) (*string, error) {
		return nil, f(args...)
	}
}

// shCapture runs f with os.Stdout replaced by a fresh temp file and returns what was written to it.
func shCapture(path string, f func()) string {
	tmp, err := os.Create(path)
	if err != nil {
		f()
		return "<cannot capture: " + err.Error() + ">"
	}
	old := os.Stdout
	os.Stdout = tmp
	func() {
		defer func() { os.Stdout = old }()
		f()
	}()
	tmp.Close()
	b, _ := ioutil.ReadFile(path)
	os.Remove(path)
	return string(b)
}

func shProbe(names []string) map[string]*string {
	if len(names) == 0 {
		return nil
	}
	out := map[string]*string{}
	for _, n := range names {
		if p, err := exec.LookPath(n); err == nil {
			// the program as the kernel will name it: absolute, without . and .. and symbolic links
			// (a command word may be spelled ./tool or $DIR/../d2/tool)
			pp := p
			if abs, err := filepath.Abs(p); err == nil {
				pp = abs
				if real, err := filepath.EvalSymlinks(abs); err == nil {
					pp = real
				}
			}
			out[n] = &pp
		} else {
			out[n] = nil
		}
	}
	return out
}

// the map a direct call hands to sh: the plain entries plus the odd ones; nil stays nil without odd entries
func shEmap(o shOp) map[string]string {
	m := o.Emap
	for _, kv := range o.EmapOdd {
		k, _ := hex.DecodeString(kv[0])
		v, _ := hex.DecodeString(kv[1])
		if m == nil {
			m = map[string]string{}
		}
		m[string(k)] = string(v)
	}
	return m
}

func shEmapHex(m map[string]string) [][2]string {
	out := [][2]string{}
	keys := []string{}
	for k := range m {
		keys = append(keys, k)
	}
	sort.Strings(keys)
	for _, k := range keys {
		out = append(out, [2]string{hex.EncodeToString([]byte(k)), hex.EncodeToString([]byte(m[k]))})
	}
	return out
}

// one direct call; returns the text handed back (Output*, Exec) and the error
func shDirect(fn string, emap map[string]string, cmd string, args []string) (out *string, err error, known bool) {
	known = true
	switch fn {
	case "Run":
		err = sh.Run(cmd, args...)
	case "RunV":
		err = sh.RunV(cmd, args...)
	case "RunWith":
		err = sh.RunWith(emap, cmd, args...)
	case "RunWithV":
		err = sh.RunWithV(emap, cmd, args...)
	case "Output":
		var s string
		s, err = sh.Output(cmd, args...)
		out = &s
	case "OutputWith":
		var s string
		s, err = sh.OutputWith(emap, cmd, args...)
		out = &s
	case "Exec":
		var so, se bytes.Buffer
		_, err = sh.Exec(emap, &so, &se, cmd, args...)
		s := so.String()
		out = &s
	default:
		known = false
	}
	return
}

func shStatus(err error) int {
	if err == nil {
		return 0
	}
	return sh.ExitStatus(err)
}

func init() {
	moreOps["shslice"] = func(r req) interface{} {
		var q shReq
		if err := json.Unmarshal(r.Raw, &q); err != nil {
			return shRes{Error: err.Error()}
		}
		internal := []string{"VERIF_ARGV_OUT", "VERIF_ARGV_GATE", "VERIF_ARGV_PRINT", "MAGEFILE_VERBOSE", "MAGEFILE_DEBUG", "VERIF_FS_EPOCH"}
		for _, k := range append(append([]string{}, q.Clear...), internal...) {
			os.Unsetenv(k)
		}
		touched := append([]string{}, q.Clear...)
		defer func() {
			for _, k := range append(touched, internal...) {
				os.Unsetenv(k)
			}
		}()
		for k, v := range q.Env {
			os.Setenv(k, v)
			touched = append(touched, k)
		}
		os.Setenv("VERIF_ARGV_OUT", q.OutFile)
		os.Setenv("VERIF_ARGV_PRINT", "1")
		// verbose mode (MAGEFILE_VERBOSE is an ordinary variable of the history) sends the child's
		// stdout to os.Stdout and logs "exec: ..." through package log: both are discarded here,
		// our own stdout is the answer channel (its writer holds the original file)
		log.SetOutput(ioutil.Discard)
		defer log.SetOutput(os.Stderr)
		if null, err := os.OpenFile(os.DevNull, os.O_WRONLY, 0); err == nil {
			old := os.Stdout
			os.Stdout = null
			defer func() { os.Stdout = old; null.Close() }()
		}

		arrays := q.Arrays
		closures := make([]shFn, 0, len(q.Closures))
		for _, c := range q.Closures {
			closures = append(closures, shMkClosure(arrays, c.Kind, c.Cmd, c.Baked))
		}
		capPath := q.OutFile + ".stdout"
		res := shRes{Snap0: shSnap(arrays), Obs: []shObs{}}
		for _, o := range q.Ops {
			ob := shObs{Argv: [][]string{}}
			os.Truncate(q.OutFile, 0)
			ob.Lookups = shProbe(o.Probe)
			switch o.Op {
			case "fs":
				// a program is removed / put back / made (non-)executable, the working directory is changed,
				// plain files appear in / vanish from a directory between calls; the epoch variable makes the
				// change visible as a change of the environment
				switch o.Act {
				case "remove":
					os.Rename(o.Path, o.Path+".gone")
				case "restore":
					os.Rename(o.Path+".gone", o.Path)
				case "chmod-x":
					os.Chmod(o.Path, 0644)
				case "chmod+x":
					os.Chmod(o.Path, 0755)
				case "chdir":
					// the working directory is part of the state of a history
					os.Chdir(o.Path)
				case "create":
					ioutil.WriteFile(o.Path, []byte("x\n"), 0644)
				case "delete":
					os.Remove(o.Path)
				}
				os.Setenv("VERIF_FS_EPOCH", o.Epoch)
			case "setenv":
				if o.Unset {
					os.Unsetenv(o.K)
				} else {
					os.Setenv(o.K, o.V)
				}
				touched = append(touched, o.K)
			case "mk":
				// the closure is made HERE, under the environment and os.Stdout of this moment
				closures = append(closures, shMkClosure(arrays, o.Kind, o.Cmd, o.Baked))
			case "call":
				extra := shMk(arrays, o.Extra)
				var err error
				ob.Stdout = shCapture(capPath, func() { ob.Out, err = closures[o.C](extra...) })
				ob.Err = errStr(err)
				ob.Status = shStatus(err)
				ob.Argv = shLines(q.OutFile)
			case "direct":
				args := shMk(arrays, o.Args)
				emap := shEmap(o)
				var err error
				bad := false
				ob.Stdout = shCapture(capPath, func() {
					var known bool
					ob.Out, err, known = shDirect(o.Fn, emap, o.Cmd, args)
					bad = !known
				})
				if bad {
					return shRes{Error: "unknown fn " + o.Fn}
				}
				ob.Status = shStatus(err)
				ob.Err = errStr(err)
				ob.Argv = shLines(q.OutFile)
				ob.Emap = emap
				ob.EmapNil = emap == nil
				ob.EmapHex = shEmapHex(emap)
			case "par":
				os.Setenv("VERIF_ARGV_GATE", q.Gate)
				for rep := 0; rep < o.Reps; rep++ {
					os.Remove(q.Gate)
					os.Truncate(q.OutFile, 0)
					specs := o.Extras
					if len(specs) == 0 && len(o.Calls) == 0 {
						specs = []shSlice{o.A, o.B}
					}
					n := len(specs)
					if len(o.Calls) > 0 {
						n = len(o.Calls)
					}
					emaps := make([]map[string]string, n)
					var rp shRep
					rp.Outs = make([]*string, n)
					errs := make([]error, n)
					turn := make([]chan struct{}, n) // closed to let call i go
					for gi := range turn {
						turn[gi] = make(chan struct{})
					}
					var wg sync.WaitGroup
					wg.Add(n)
					var returned int32
					for gi := 0; gi < n; gi++ {
						var extra []string
						var call *shOp
						if len(o.Calls) > 0 {
							call = &o.Calls[gi]
							if call.Op == "direct" {
								extra = shMk(arrays, call.Args)
								emaps[gi] = shEmap(*call)
							} else {
								extra = shMk(arrays, call.Extra)
							}
						} else {
							extra = shMk(arrays, specs[gi])
						}
						go func(gi int, extra []string, call *shOp) {
							defer wg.Done()
							defer atomic.AddInt32(&returned, 1)
							<-turn[gi]
							if call != nil {
								if call.Op == "direct" {
									rp.Outs[gi], errs[gi], _ = shDirect(call.Fn, emaps[gi], call.Cmd, extra)
								} else {
									rp.Outs[gi], errs[gi] = closures[call.C](extra...)
								}
								return
							}
							switch o.ParFn {
							case "Output":
								s, err := sh.Output(o.Cmd, extra...)
								rp.Outs[gi], errs[gi] = &s, err
							case "Run":
								errs[gi] = sh.Run(o.Cmd, extra...)
							default:
								rp.Outs[gi], errs[gi] = closures[o.C](extra...)
							}
						}(gi, extra, call)
					}
					t0 := time.Now()
					bound := time.Duration(o.BoundMs) * time.Millisecond
					if bound <= 0 {
						bound = 15 * time.Second
					}
					// until `want` calls have their child alive (reported) or have returned; false: the bound passed
					waitFor := func(want int) bool {
						for {
							alive := len(shLines(q.OutFile))
							ret := int(atomic.LoadInt32(&returned))
							rp.Alive, rp.Returned = alive, ret
							if alive+ret >= want {
								return true
							}
							if time.Since(t0) > bound {
								return false
							}
							time.Sleep(300 * time.Microsecond)
						}
					}
					done := make(chan struct{})
					go func() { wg.Wait(); close(done) }()
					// The gate is opened only when every call has either its child alive (reported) or has
					// returned (its child could not be started).  A held child cannot exit, so its call cannot
					// return: if after the bound some call has done neither, it is held back by - or riding
					// on - another call of the same closure -> stalled (reported, then the gate is opened so
					// that everything can finish).
					released := 0
					ok := true
					for gi := 0; gi < n && ok; gi++ {
						if len(o.Stagger) > 0 && gi > 0 {
							// staggered: call gi starts only when the children of calls 0..gi-1 are alive and held
							ok = waitFor(gi)
							if !ok {
								break
							}
						}
						if gi < len(o.Stagger) && o.Stagger[gi] != nil {
							os.Setenv(o.Stagger[gi].K, o.Stagger[gi].V)
							touched = append(touched, o.Stagger[gi].K)
						}
						close(turn[gi])
						released++
					}
					if ok {
						ok = waitFor(n)
					}
					rp.Stalled = !ok
					for gi := released; gi < n; gi++ {
						close(turn[gi])
					}
					rp.WaitedMs = time.Since(t0).Milliseconds()
					if f, err := os.Create(q.Gate); err == nil {
						f.Close()
					}
					<-done
					rp.Errs = make([]string, n)
					rp.Status = make([]int, n)
					rp.EmapsHex = make([][][2]string, n)
					for gi := range emaps {
						rp.EmapsHex[gi] = shEmapHex(emaps[gi])
					}
					for gi := range errs {
						rp.Errs[gi] = errStr(errs[gi])
						rp.Status[gi] = shStatus(errs[gi])
					}
					rp.Lines = shLines(q.OutFile)
					rp.Snap = shSnap(arrays)
					ob.Reps = append(ob.Reps, rp)
					if rp.Stalled {
						break
					}
				}
				os.Remove(q.Gate)
				os.Unsetenv("VERIF_ARGV_GATE")
			default:
				return shRes{Error: "unknown op " + o.Op}
			}
			ob.Snap = shSnap(arrays)
			res.Obs = append(res.Obs, ob)
		}
		return res
	}
}
