package main

import (
	"encoding/json"
	"os"
	"path/filepath"
	"time"

	"github.com/magefile/mage/target"
)

type targetReq struct {
	Root    string            `json:"root"`
	Env     map[string]string `json:"env"`
	Fn      string            `json:"fn"`
	Dst     string            `json:"dst"`
	Sources []string          `json:"sources"`
	Target  int64             `json:"target"`
	// Reuse: pass the very slice object of the previous request again (a caller that keeps one
	// []string of "$VAR/..." sources and calls repeatedly while the environment changes)
	Reuse bool `json:"reuse"`
	// Touch: modification times set (relative to Root) before the call - one large tree serves many cases that
	// differ in which entry decides
	Touch []touchReq `json:"touch,omitempty"`
}

type touchReq struct {
	Path  string `json:"path"`
	Mtime int64  `json:"mtime"`
}

var targetLastSources []string

type targetRes struct {
	Ans   bool                 `json:"ans"`
	Err   string               `json:"err"`
	Time  int64                `json:"time"`
	Globs map[string]*[]string `json:"globs,omitempty"`
}

var targetEnvSet []string

func init() {
	moreOps["target"] = func(r req) interface{} {
		var q targetReq
		if err := json.Unmarshal(r.Raw, &q); err != nil {
			return map[string]string{"error": err.Error()}
		}
		if err := os.Chdir(q.Root); err != nil {
			return map[string]string{"error": err.Error()}
		}
		for _, t := range q.Touch {
			tm := time.Unix(0, t.Mtime)
			if err := os.Chtimes(t.Path, tm, tm); err != nil {
				return map[string]string{"error": err.Error()}
			}
		}
		for _, k := range targetEnvSet {
			os.Unsetenv(k)
		}
		targetEnvSet = nil
		for k, v := range q.Env {
			os.Setenv(k, v)
			targetEnvSet = append(targetEnvSet, k)
		}
		if q.Reuse && len(targetLastSources) == len(q.Sources) {
			q.Sources = targetLastSources
		} else {
			targetLastSources = q.Sources
		}
		var res targetRes
		var err error
		tt := time.Unix(0, q.Target)
		switch q.Fn {
		case "Path":
			res.Ans, err = target.Path(q.Dst, q.Sources...)
		case "Glob":
			res.Ans, err = target.Glob(q.Dst, q.Sources...)
		case "Dir":
			res.Ans, err = target.Dir(q.Dst, q.Sources...)
		case "PathNewer":
			res.Ans, err = target.PathNewer(tt, q.Sources...)
		case "GlobNewer":
			res.Ans, err = target.GlobNewer(tt, q.Sources...)
		case "DirNewer":
			res.Ans, err = target.DirNewer(tt, q.Sources...)
		case "NewestModTime":
			var t time.Time
			t, err = target.NewestModTime(q.Sources...)
			res.Time = t.UnixNano()
			if t.IsZero() {
				res.Time = -1
			}
		case "OldestModTime":
			var t time.Time
			t, err = target.OldestModTime(q.Sources...)
			res.Time = t.UnixNano()
		}
		if err != nil {
			res.Err = err.Error()
		}
		if q.Fn == "Glob" || q.Fn == "GlobNewer" {
			// the standard library's own answer for each pattern (independent of mage)
			res.Globs = map[string]*[]string{}
			for _, g := range q.Sources {
				m, gerr := filepath.Glob(g)
				if gerr != nil {
					res.Globs[g] = nil
				} else {
					if m == nil {
						m = []string{}
					}
					mm := m
					res.Globs[g] = &mm
				}
			}
		}
		return res
	}
}
