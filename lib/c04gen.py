"""C04: generator of collision-free magefile packages (plain / namespaced / imported / aliased
targets over the four supported parameter types) and of command lines for them.

A project spec is a JSON-able dict:
  {"name": "p0007",
   "pkgs": [ {"key": "", "pkgname": "main", "alias": ""|None ..., "decls": [decl...]}, imported... ],
   "aliases": [[alias, def]], "default": def or None}
  decl = {"def": 7, "name": "Build", "recv": ""|"NS", "params": ["string","int",...], "ctx": bool, "err": bool, "ptr": bool}
Nothing here decides what mage should do with it; render() prints Go source, info() computes the
data the dispatch template is instantiated with (parse.Function.TargetName: alias:receiver:name).
"""
import json

TYPES = ["string", "int", "bool", "time.Duration"]
# identifier case patterns: Build, HTMLParser, B, and names that look like argument words
FUNC_NAMES = ["Build", "HTMLParser", "B", "Test", "Deploy", "Run", "T", "True", "X1", "Gen_code", "V", "F",
              "Install", "CleanAll", "ID", "H", "False", "Lint", "DocGen", "Up"]
NS_NAMES = ["NS", "Docker", "DB", "Q", "HTTPServer", "Ci"]
IMP_NAMES = ["one", "two", "tools"]
ALIAS_TAGS = ["al", "X", "extTools", "t2"]
ALIAS_NAMES = ["bd", "Quick", "d", "ALL", "x-y", "go.run", "ci_all", "b2", "tt", "Zed", "h"]


def target_name(pkg, d):
    return ":".join(s for s in (pkg.get("alias") or "", d["recv"], d["name"]) if s)


# identifiers with non-ASCII letters (precomposed, exported: first letter upper case), for target, namespace and
# alias names; an all-ASCII name stays in each pool so that both kinds meet in one package
NA_FUNC_NAMES = ["Überprüfen", "Ärger", "Éclair", "Ñandú", "Ωmega", "Žluťoučký", "Привет", "Ölwechsel", "Čistý", "BuildÜ", "TÉST", "Ð", "Build", "T"]
NA_NS_NAMES = ["PRÜFUNG", "Δelta", "Šablona", "Ünï", "NS"]
NA_ALIAS_NAMES = ["über", "ÄB", "prüf", "Ж", "ÇA", "bd", "Quick"]
NA_ALIAS_TAGS = ["äl", "X"]


def nonascii_chars():
    return sorted(set(c for n in NA_FUNC_NAMES + NA_NS_NAMES + NA_ALIAS_NAMES + NA_ALIAS_TAGS for c in n if not c.isascii()))


def gen_decls(rng, next_def, nmax, used_lower, prefix, FUNC_NAMES=FUNC_NAMES, NS_NAMES=NS_NAMES):
    """decls of one package; used_lower: lowered target names taken so far (collision-free by construction)."""
    decls = []
    nss = rng.sample(NS_NAMES, rng.choice([0, 0, 1, 1, 2]))
    n = rng.choice([1, 2, 3, 4, 5, 6][:nmax])
    go_names = set(nss)
    tries = 0
    while len(decls) < n and tries < 60:
        tries += 1
        recv = rng.choice([""] * 3 + nss) if nss else ""
        name = rng.choice(FUNC_NAMES)
        others = [d["name"] for d in decls if d["recv"] != recv]
        if others and rng.random() < 0.4:
            name = rng.choice(others)      # the same function name as a plain target and as a namespace method (build / docker:build)
        if recv == "" and name in go_names:
            continue
        if (recv, name.lower()) in [(d["recv"], d["name"].lower()) for d in decls]:
            continue
        tn = ":".join(s for s in (prefix, recv, name) if s).lower()
        if tn in used_lower:
            continue
        used_lower.add(tn)
        if recv == "":
            go_names.add(name)
        r = rng.random()
        if r < 0.25:
            k = 0
        elif r < 0.85:
            k = rng.choice([1, 1, 2, 2, 3])
        else:
            k = rng.choice([4, 5, 6])
        params = [rng.choice(TYPES) for _ in range(k)]
        decls.append({"def": next_def[0], "name": name, "recv": recv, "params": params, "ctx": rng.random() < 0.3,
                      "err": rng.random() < 0.6, "ptr": False, "group": rng.random() < 0.3})
        next_def[0] += 1
    return decls, nss


def gen_project(rng, name, nonascii=False):
    fn, nsn, aln, tags = (NA_FUNC_NAMES, NA_NS_NAMES, NA_ALIAS_NAMES, NA_ALIAS_TAGS) if nonascii else (FUNC_NAMES, NS_NAMES, ALIAS_NAMES, ALIAS_TAGS)
    return _gen_project(rng, name, fn, nsn, aln, tags, nonascii)


def _gen_project(rng, name, FUNC_NAMES, NS_NAMES, ALIAS_NAMES, ALIAS_TAGS, nonascii):
    used = set()
    next_def = [1]
    pkgs = []
    decls, nss = gen_decls(rng, next_def, 6, used, "", FUNC_NAMES, NS_NAMES)
    pkgs.append({"key": "", "pkgname": "main", "alias": "", "tagged": False, "decls": decls, "nss": nss})
    nimp = rng.choice([0, 0, 1, 1, 1, 2])
    for pn in rng.sample(IMP_NAMES, nimp):
        alias = rng.choice(["", rng.choice(ALIAS_TAGS)])
        if alias and alias.lower() in [p["alias"].lower() for p in pkgs if p["alias"]]:
            alias = ""
        decls, nss = gen_decls(rng, next_def, 4, used, alias, FUNC_NAMES, NS_NAMES)
        if not decls:
            continue
        pkgs.append({"key": pn, "pkgname": pn, "alias": alias, "tagged": True, "decls": decls, "nss": nss})
    alld = [(p, d) for p in pkgs for d in p["decls"]]
    aliases = []
    # declarations whose function name also occurs under another receiver of the same package: references to
    # them (Aliases values, Default) must denote exactly that one
    shared = [(p, d) for p, d in alld if any(e is not d and e["name"] == d["name"] for e in p["decls"])]
    for a in rng.sample(ALIAS_NAMES, rng.choice([0, 0, 1, 2, 3])):
        if a.lower() in used or a.lower() in [x[0].lower() for x in aliases]:
            continue
        p, d = rng.choice(shared if shared and rng.random() < 0.5 else alld)
        aliases.append([a, d["def"]])
    default = None
    r = rng.random()
    if r < 0.6:
        noarg = [d["def"] for p, d in alld if not d["params"]]
        witharg = [d["def"] for p, d in alld if d["params"]]
        sh_ = [d["def"] for p, d in shared]
        if sh_ and rng.random() < 0.4:
            default = rng.choice(sh_)
        elif noarg and (rng.random() < 0.8 or not witharg):
            default = rng.choice(noarg)
        elif witharg:
            default = rng.choice(witharg)
    return {"name": name, "pkgs": pkgs, "aliases": aliases, "default": default, "nonascii": bool(nonascii)}


def _params(d):
    ps = []
    if d["ctx"]:
        ps.append("ctx context.Context")
    names = []
    i = 0
    params = d["params"]
    while i < len(params):
        # `a, b string` grouping of equal neighbouring types
        j = i + 1
        if d.get("group"):
            while j < len(params) and params[j] == params[i]:
                j += 1
        ps.append(", ".join("a%d" % k for k in range(i, j)) + " " + params[i])
        names += ["a%d" % k for k in range(i, j)]
        i = j
    return ", ".join(ps), names


def _func(d):
    sig, names = _params(d)
    recv = "(%s) " % d["recv"] if d["recv"] else ""
    args = ", ".join(['"d%d"' % d["def"]] + names)
    if d["err"]:
        return "func %s%s(%s) error {\n\treturn probe.Call(%s)\n}\n" % (recv, d["name"], sig, args)
    return "func %s%s(%s) {\n\tprobe.Must(%s)\n}\n" % (recv, d["name"], sig, args)


def _ref(proj, defid):
    for p in proj["pkgs"]:
        for d in p["decls"]:
            if d["def"] == defid:
                parts = ([p["pkgname"]] if p["key"] else []) + ([d["recv"]] if d["recv"] else []) + [d["name"]]
                return ".".join(parts), p
    raise KeyError(defid)


def render(proj):
    """{relative path: Go source}"""
    mod = "example.test/" + proj["name"]
    files = {}
    referenced = set()
    extra = []
    if proj["aliases"]:
        lines = []
        for a, defid in proj["aliases"]:
            ref, p = _ref(proj, defid)
            if p["key"]:
                referenced.add(p["key"])
            lines.append("\t%s: %s," % (json.dumps(a, ensure_ascii=False), ref))
        extra.append("var Aliases = map[string]interface{}{\n%s\n}\n" % "\n".join(lines))
    if proj["default"] is not None:
        ref, p = _ref(proj, proj["default"])
        if p["key"]:
            referenced.add(p["key"])
        extra.append("var Default = %s\n" % ref)
    for p in proj["pkgs"]:
        def imports_for(decls, nss):
            imports = ['\t"%s/probe"' % mod] if decls else []
            if nss:
                imports.append('\t"github.com/magefile/mage/mg"')
            if any(d["ctx"] for d in decls):
                imports.append('\t"context"')
            if any("time.Duration" in d["params"] for d in decls):
                imports.append('\t"time"')
            return imports
        if p["key"] == "":
            # the local package may be spread over several magefiles: proj["split"] maps str(def) -> file index
            split = proj.get("split") or {}
            byfile = {0: [], 1: [], 2: []}
            for d in p["decls"]:
                byfile[split.get(str(d["def"]), 0)].append(d)
            imports = imports_for(byfile[0], p["nss"])
            for q in proj["pkgs"]:
                if not q["key"]:
                    continue
                tag = "\t// mage:import" + (" " + q["alias"] if q["alias"] else "")
                name = "" if q["key"] in referenced else "_ "
                imports.append('%s\n\t%s"%s/imp/%s"' % (tag, name, mod, q["key"]))
            body = "".join("type %s mg.Namespace\n\n" % ns for ns in p["nss"]) + "\n".join(_func(d) for d in byfile[0])
            imp = "import (\n%s\n)\n\n" % "\n".join(imports) if imports else ""
            files["magefile.go"] = "//go:build mage\n// +build mage\n\npackage main\n\n%s%s\n%s" % (imp, "\n".join(extra), body)
            for fi, fname in SPLIT_FILES.items():
                if byfile[fi]:
                    files[fname] = "//go:build mage\n// +build mage\n\npackage main\n\nimport (\n%s\n)\n\n%s" % (
                        "\n".join(imports_for(byfile[fi], [])), "\n".join(_func(d) for d in byfile[fi]))
        else:
            body = "".join("type %s mg.Namespace\n\n" % ns for ns in p["nss"])
            body += "\n".join(_func(d) for d in p["decls"])
            src = "package %s\n\nimport (\n%s\n)\n\n%s" % (p["pkgname"], "\n".join(imports_for(p["decls"], p["nss"])), body)
            files["imp/%s/%s.go" % (p["key"], p["key"])] = src
    return files


# magefile.go sorts between the two: an edit to a_targets.go is an edit to a file that is not last in name order
SPLIT_FILES = {1: "a_targets.go", 2: "z_targets.go"}


def gen_split(rng, proj, force_first=False):
    """spread the local declarations over up to three magefiles"""
    split = {}
    decls = proj["pkgs"][0]["decls"]
    for d in decls:
        split[str(d["def"])] = rng.choice([0, 0, 1, 1, 2])
    if force_first and decls and 1 not in split.values():
        split[str(rng.choice(decls)["def"])] = 1
    return split


def gen_edit_import(rng, proj):
    """the next generation in which ONLY a mage:import'ed package is edited (a new target, a changed parameter
    list, a renamed target); None when the package imports nothing"""
    import copy
    if len(proj["pkgs"]) < 2:
        return None
    new = copy.deepcopy(proj)
    new["prev_files"] = render(proj)
    pk = rng.choice(new["pkgs"][1:])
    used = set(target_name(p, d).lower() for p in new["pkgs"] for d in p["decls"]) | set(a.lower() for a, _ in new["aliases"])
    go_names = set(pk["nss"]) | set(d["name"] for d in pk["decls"] if not d["recv"])
    fresh = [n for n in ["Deploy2", "Publish", "Stage", "Rel", "Pkg", "Ship", "Sync", "W"]
             if ":".join(x for x in (pk["alias"], n) if x).lower() not in used and n not in go_names]
    referenced = set(x[1] for x in new["aliases"]) | {new["default"]}
    renamable = [d for d in pk["decls"] if d["def"] not in referenced and not d["recv"]]
    kinds = ["imp-params", "imp-params"] + (["imp-new", "imp-new"] + (["imp-rename"] if renamable else []) if fresh else [])
    kind = rng.choice(kinds)
    if kind == "imp-new":
        nd = {"def": 1 + max(d["def"] for p in new["pkgs"] for d in p["decls"]), "name": rng.choice(fresh), "recv": "",
              "params": [rng.choice(TYPES) for _ in range(rng.choice([0, 1, 2, 2]))], "ctx": rng.random() < 0.3, "err": rng.random() < 0.6,
              "ptr": False, "group": False}
        pk["decls"].append(nd)
        new["edit"] = {"kind": kind, "def": nd["def"]}
    elif kind == "imp-params":
        d = rng.choice(pk["decls"])
        old = list(d["params"])
        while d["params"] == old:
            d["params"] = [rng.choice(TYPES) for _ in range(rng.choice([0, 1, 2, 3]))]
        new["edit"] = {"kind": kind, "def": d["def"], "old_params": old}
    else:
        d = rng.choice(renamable)
        new["edit"] = {"kind": kind, "def": d["def"], "old_name": ":".join(x for x in (pk["alias"], d["name"]) if x)}
        d["name"] = rng.choice(fresh)
    return new


# the go tool's environment for the first run after an edit (default mode: "a go build cache exists -> always
# rebuild").  NEW = a directory that does not exist yet, SHM = a directory on another file system.
# mayfail: the go tool refuses to build under it - then nothing may run at all
GOENVS = {
    "default": ({}, False),
    "gocache-new": ({"GOCACHE": "NEW"}, False),
    "gocache-new-nohome": ({"GOCACHE": "NEW", "HOME": None}, False),
    "gocache-off": ({"GOCACHE": "off"}, True),
    "gocache-relative": ({"GOCACHE": "relcache"}, True),
    "goflags-tags": ({"GOFLAGS": "-mod=mod -tags=x"}, False),
    "goflags-trimpath": ({"GOFLAGS": "-mod=mod -trimpath"}, False),
    "tmpdir-elsewhere": ({"GOTMPDIR": "SHM", "TMPDIR": "SHM"}, False),
    "gopath-elsewhere": ({"GOPATH": "NEW"}, False),
    "home-unset": ({"HOME": None}, True),
}


def gen_edit(rng, proj):
    """the next generation of a package: ONE magefile (a_targets.go) is edited - a new target, a changed
    parameter list, or a renamed target.  Returns the new spec; new["prev_files"] are the old sources and
    new["edit"] says what changed."""
    import copy
    new = copy.deepcopy(proj)
    new["prev_files"] = render(proj)
    local = new["pkgs"][0]
    used = set(target_name(p, d).lower() for p in new["pkgs"] for d in p["decls"]) | set(a.lower() for a, _ in new["aliases"])
    go_names = set(local["nss"]) | set(d["name"] for d in local["decls"] if not d["recv"])
    fresh = [n for n in ["Deploy2", "Publish", "Stage", "Rel", "Pkg", "Ship", "Sync", "W"] if n.lower() not in used and n not in go_names]
    in_a = [d for d in local["decls"] if new["split"].get(str(d["def"])) == 1]
    referenced = set(x[1] for x in new["aliases"]) | {new["default"]}
    kinds = ["new"] + (["params", "params"] if in_a else []) + (["rename"] if [d for d in in_a if d["def"] not in referenced and not d["recv"]] else [])
    kind = rng.choice(kinds) if fresh else "params"
    if kind == "new":
        nd = {"def": 1 + max(d["def"] for p in new["pkgs"] for d in p["decls"]), "name": rng.choice(fresh), "recv": "",
              "params": [rng.choice(TYPES) for _ in range(rng.choice([0, 1, 2, 2]))], "ctx": rng.random() < 0.3, "err": rng.random() < 0.6,
              "ptr": False, "group": False}
        local["decls"].append(nd)
        new["split"][str(nd["def"])] = 1
        new["edit"] = {"kind": "new", "def": nd["def"]}
    elif kind == "params":
        d = rng.choice(in_a)
        old = list(d["params"])
        while d["params"] == old:
            d["params"] = [rng.choice(TYPES) for _ in range(rng.choice([0, 1, 2, 3]))]
        new["edit"] = {"kind": "params", "def": d["def"], "old_params": old}
    else:
        d = rng.choice([d for d in in_a if d["def"] not in referenced and not d["recv"]])
        new["edit"] = {"kind": "rename", "def": d["def"], "old_name": d["name"]}
        d["name"] = rng.choice(fresh)
    return new


def info(proj):
    """the data the dispatch template sees: local funcs sorted by TargetName, imports (sorted by unique
    name <pkgname>_mageimport) each with its funcs, aliases sorted by key (text/template ranges over a
    map in key order), default."""
    def tgt(p, d):
        return {"tname": target_name(p, d), "args": list(d["params"]), "def": d["def"]}
    byd = {d["def"]: tgt(p, d) for p in proj["pkgs"] for d in p["decls"]}
    local = sorted((tgt(proj["pkgs"][0], d) for d in proj["pkgs"][0]["decls"]), key=lambda t: t["tname"].encode())
    imps = []
    for p in sorted(proj["pkgs"][1:], key=lambda p: p["pkgname"] + "_mageimport"):
        imps.append(sorted((tgt(p, d) for d in p["decls"]), key=lambda t: t["tname"].encode()))
    aliases = sorted(([a, byd[defid]["tname"]] for a, defid in proj["aliases"]), key=lambda x: x[0].encode())
    return {"funcs": local, "imports": imps, "aliases": aliases,
            "default": byd[proj["default"]] if proj["default"] is not None else None}


# ------------------------------------------------------------------ command lines
# per type: spellings the conversion accepts / rejects (what really happens is decided by the Go standard
# library in the harness, these lists only steer the distribution).  Among the accepted ints: leading
# zeros (decimal for Atoi); among the rejected: the spellings other parsers accept (base prefixes, underscores)
INT_OK = ["0", "5", "-3", "+5", "007", "42", "2147483648", "9223372036854775807", "-9223372036854775808",
          "010", "0644", "-017", "+0123", "00", "0099"]
INT_BAD = ["1x", "", "0x10", "1.5", "9223372036854775808", "١", " 1", "1_000", "1e3", "--1", "-", "T", "1h2m",
           "0b11", "0o7", "0X1F", "0_7", "5 ", "٣", "1,000", "0x", "+-1"]
BOOL_OK = ["true", "false", "T", "F", "1", "0", "TRUE", "True", "t", "f", "FALSE", "False"]
BOOL_BAD = ["yes", "no", "", "tRUE", "2", "on", "-v", "ok", "y", "TrUe", " true", "01", "fALSE", "null"]
DUR_OK = ["1s", "1h2m", "1.5s", "0", "-1.5h", "1µs", "100ms", "1us", "+3m", ".5s", "1h2m3s4ms", "1μs", "0s", "1.h"]
DUR_BAD = ["1", "1x", "", "s", "1 s", "1d", "9999999h", "yes", "5", "1.5", "١s", "--", "1S", "1H", "h1", "1m ", "-", "1e3s", "."]
INT_WORDS, BOOL_WORDS, DUR_WORDS = INT_OK + INT_BAD, BOOL_OK + BOOL_BAD, DUR_OK + DUR_BAD
STR_WORDS = ["", "a", "hello world", "-v", "--", "-h", "-l", "-t", "1x", "true", "über", "a\"b", "x:y", "*", "$HOME",
             "a\\b", "'q'", "١", "  ", "-", "--help", "=", "a=b",
             "", " ", "a b\tc", "line1\nline2", "\t", "%s", "100%", "%d%%%v", "${X}", "$(id)", "`id`", "a;b|c&d", "<x>", "(y)", "?",
             "#c", "~", "!", "\\", "\\n", "C:\\dir\\f", "\"\"", "''", "-debug", "-t=5m", "--v", "-compile", "日本語", "é́", "\U0001F600",
             "x" * 700, "a " * 120]
UNKNOWN_WORDS = ["nosuch", "", "x:", ":build", "build:", "ns", "1", "true", "-v", "--", "al", "one:build", "über", "b u", ":", "a:b:c:d"]


# per character: (strings.ToUpper, strings.ToLower) as the Go standard library computes them (filled by the
# check from harness/unitrun op conv for the characters of the non-ASCII pools); ASCII falls back to Python's
GO_CASE = {}


def go_upper(s):
    return "".join(GO_CASE[c][0] if c in GO_CASE else (c.upper() if c.isascii() else c) for c in s)


def go_lower(s):
    return "".join(GO_CASE[c][1] if c in GO_CASE else (c.lower() if c.isascii() else c) for c in s)


def rand_case(rng, s):
    """a name as typed: all-lower, all-upper (Go's ToUpper), as declared, or mixed character by character"""
    r = rng.random()
    if r < 0.3:
        return go_lower(s)
    if r < 0.45:
        return go_upper(s)
    if r < 0.6:
        return s
    return "".join(go_upper(c) if rng.random() < 0.5 else go_lower(c) for c in s)


def arg_word(rng, ty, inf, valid_bias=0.85):
    pool = {"string": STR_WORDS, "int": INT_WORDS, "bool": BOOL_WORDS, "time.Duration": DUR_WORDS}[ty]
    if ty == "string" and rng.random() < 0.35:
        # a word that looks like a target or alias name
        names = [t["tname"] for t in all_targets(inf)] + [a for a, _ in inf["aliases"]]
        return rand_case(rng, rng.choice(names))
    if ty != "string":
        ok, bad = {"int": (INT_OK, INT_BAD), "bool": (BOOL_OK, BOOL_BAD), "time.Duration": (DUR_OK, DUR_BAD)}[ty]
        return rng.choice(ok if rng.random() < valid_bias else bad)
    return rng.choice(pool)


def all_targets(inf):
    return inf["funcs"] + [t for imp in inf["imports"] for t in imp]


def gen_words(rng, inf):
    """one command line (list of words, non-empty, first word never starts with '-')"""
    ts = all_targets(inf)
    names = [(t["tname"], t) for t in ts]
    byname = {t["tname"]: t for t in ts}
    for a, tn in inf["aliases"]:
        names.append((a, byname[tn]))
    words = []
    nm = rng.choice([1, 1, 1, 2, 2, 3, 4, 6])
    shape = rng.random()
    for m in range(nm):
        r = rng.random()
        if r < 0.07:
            words.append(rng.choice(UNKNOWN_WORDS))
            if rng.random() < 0.5:
                words.append(rng.choice(STR_WORDS))
            continue
        nme, t = rng.choice(names)
        words.append(rand_case(rng, nme))
        args = [arg_word(rng, ty, inf, 0.93 if shape < 0.6 else 0.8) for ty in t["args"]]
        r = rng.random()
        if r < 0.06 and args:
            args = args[:rng.randrange(len(args))]          # too few words (matters at the end or shifts the rest)
        elif r < 0.10:
            args.append(rng.choice(STR_WORDS + INT_WORDS))   # one word too many: read as the next target name
        words += args
    if not words:
        words = ["nosuch"]
    if words[0].startswith("-") or words[0] == "":
        # a leading "-x" word would be a flag of mage / of the compiled binary (C11), not a target word;
        # a leading empty word is kept (flag parsing stops there) only when it is not the very first: mage itself
        # treats it like any other word, but keep the boundary simple.
        words[0] = "nosuch" if words[0].startswith("-") else words[0]
    return words


IGNORE_VALUES = [None, None, None, "1", "true", "0", "false", "yes", "T", "TRUE", "", "2"]


# ------------------------------------------------------------------ how the program is started
def gen_mode(rng):
    """mode flags that must not change dispatch: verbose (flag and/or environment), debug, timeout"""
    if rng.random() < 0.45:
        return {"verbose": None, "debug": False, "timeout": None, "spell": 0}
    return {"verbose": rng.choice([None, "flag", "flag", "env", "both"]), "debug": rng.random() < 0.3,
            "timeout": rng.choice([None, None, "5m", "1h30m"]), "spell": rng.randrange(3)}


def mode_flags(mode, front_end):
    """(flags, env) for the mage front end (front_end=True) or for a compiled binary"""
    fl, env = [], {}
    if mode["verbose"] in ("flag", "both"):
        fl.append(["-v", "-v=true", "--v"][mode["spell"]])
    if mode["verbose"] in ("env", "both"):
        env["MAGEFILE_VERBOSE"] = ["1", "true", "T"][mode["spell"]]
    if mode["debug"]:
        if front_end and mode["spell"] != 1:
            fl.append("-debug")
        else:
            env["MAGEFILE_DEBUG"] = "1"
    if mode["timeout"]:
        fl += [["-t", mode["timeout"]], ["-t=" + mode["timeout"]], ["--t", mode["timeout"]]][mode["spell"]]
    return fl, env


def gen_argv0(rng, inf, compiled_name):
    """file name and invocation path of the compiled binary: None (a neutral name by absolute path) or
    {"name", "via": copy|hardlink|symlink|compiled|fake, "how": abs|dot|path}"""
    if rng.random() < 0.5:
        return None
    if compiled_name and rng.random() < 0.35:
        return {"name": compiled_name, "via": "compiled", "how": rng.choice(["abs", "dot", "path"])}
    names = [t["tname"] for t in all_targets(inf)] + [a for a, _ in inf["aliases"]]
    name = binary_name(rng, rng.choice(names))
    return {"name": name, "via": rng.choice(["copy", "hardlink", "symlink", "symlink", "fake"]), "how": rng.choice(["abs", "dot", "path"])}


def binary_name(rng, target_name):
    name = rand_case(rng, target_name)
    if rng.random() < 0.25:
        name += rng.choice([".exe", ".EXE"])
    return name


def gen_streams(rng):
    """the standard streams of two more runs of the line (compiled binary, sometimes the cached route through
    mage): one detached from everything (cron / systemd / exec.Command with nil streams), one drawn freely"""
    detached = {"stdin": rng.choice(["devnull", "devnull", "closed"]), "stdout": "file", "stderr": "devnull", "via": "bin"}
    free = {"stdin": rng.choice(["data", "empty", "devnull", "closed", "pty", "pty"]),
            "stdout": rng.choice(["pipe", "file", "pty"]),
            "stderr": rng.choice(["pipe", "file", "devnull", "pty", "pty"]),
            "via": "mage" if rng.random() < 0.2 else "bin"}
    return [detached, free]
