"""C06: abstract magefile packages (a declaration zoo) -> Go files, Coq terms, and the oracle's reading.

An abstract package is a JSON-able dict (see gen_package).  Nothing here is derived from mage's
code or output: the renderer writes Go text, the Coq printer writes the same package as a term of
Model/Classify.v, the oracle functions read the property sentence over the abstract declarations.
"""
import re
from vlib import coq_str, coq_list, coq_bool

SUPPORTED = ["string", "int", "bool", "dur"]
GO_TY = {"string": "string", "int": "int", "bool": "bool", "dur": "time.Duration", "ctx": "context.Context"}
GO_PRINTED = {"string": "string", "int": "int", "bool": "bool", "dur": "time.Duration"}
# unsupported parameter types (spelling); "Ctx" is a local alias of context.Context
OTHER_TYS = ["float64", "[]string", "func()", "*int", "Ctx", "(string)", "interface{}", "map[string]int", "uint",
             "int64", "error", "time.Time", "*time.Duration", "[]int", "rune", "*string", "chan int", "Local", "[2]bool"]
# results: (spelling, kind, zero value)
RES_OTHER = [("int", "0"), ("string", '""'), ("bool", "false"), ("*int", "nil"), ("[]string", "nil"),
             ("time.Duration", "0"), ("interface{}", "nil"), ("local", "0"), ("[]local", "nil"), ("func()", "nil")]
RES_LOCAL = [("Local", "0"), ("*Local", "nil"), ("[]Local", "nil"), ("[]*Local", "nil")]

FUNC_NAMES = ["Build", "BuildAll", "HTMLParser", "B", "Deploy", "RunTests", "DB", "DBMigrate", "X2Y", "Clean_up", "ABC",
              "Go", "Install", "Lint", "GenDocs", "CI", "CIRelease", "Fmt", "VetAll", "A1", "Release", "TestE2E", "Up",
              "URLCheck", "Zip", "Q", "Package", "PushImage", "IDs", "Watch"]
LOWER_NAMES = ["lint", "buildHelper", "_hidden", "doIt", "helper2", "x2y", "run"]
METHOD_NAMES = ["Build", "Test", "All", "Push", "DBUp", "Docs", "X", "Run2", "HTTPServe", "Clean", "Gen", "Ptr", "Val"]
LOWER_METHODS = ["helper", "internal", "do"]
NS_NAMES = ["NS", "Docker", "DB2", "Rel", "CIJobs", "K8s", "Tools", "Web"]
PARAM_NAMES = ["a", "b", "s", "n", "name", "d", "ok", "x", "arg0", "arg1", "count", "msg", "v", "flag2", "t", "y", "z", "w"]
# package-level identifiers that must be harmless: the ALIASED imports of the generated file and its locals
HARMLESS = ["flag", "fmt", "ioutil", "log", "filepath", "sort", "strings", "tabwriter", "args", "list", "ctx", "logger",
            "x", "target", "color", "arguments", "fs", "runTarget", "handleError", "printName", "ret", "wrapFn", "cancel",
            "copy", "print", "Version", "Answer",
            "os", "signal", "strconv", "syscall"]      # aliased in the generated file since 869bb8a
# the imports of the generated file that were unaliased before 869bb8a (finding F7, repaired) and the
# predeclared identifiers the generated file uses (known finding)
IMPORT_NAMES = ["os", "signal", "time", "context", "strconv", "syscall"]
# EVERY predeclared identifier of Go (types, constants, zero value, builtin functions): a magefile may
# legally redeclare any of them at package level; the generated main is compiled in the same package
PREDECLARED = ["any", "bool", "byte", "comparable", "complex64", "complex128", "error", "float32", "float64", "int", "int8",
               "int16", "int32", "int64", "rune", "string", "uint", "uint8", "uint16", "uint32", "uint64", "uintptr",
               "true", "false", "iota", "nil",
               "append", "cap", "clear", "close", "complex", "copy", "delete", "imag", "len", "make", "max", "min", "new",
               "panic", "print", "println", "real", "recover"]
# a few ordinary names (locals of the generated main, common helper names): never a problem
ORDINARY = ["d", "err", "sigCh", "keys", "w", "targets", "main_", "usage", "run", "sh", "exit", "getContext"]
# the predeclared identifiers the generated main of the tree at 5f65f03 uses: MEASURED with every declaration kind
# (tools/notes/C06.md); redeclaring one of these is the known finding, any other identifier that stops building is new
PREDECL_BASELINE = ["append", "bool", "error", "false", "int", "int64", "iota", "len", "make", "nil", "recover", "string",
                    "true", "uint8"]
# parameter types that LOOK like a supported type or like context.Context but are not
LOOKALIKE_TYS = ["Duration", "Context", "conf.Duration", "conf.Context", "time.Month", "conf.Month"]

WORDS = {
    "string": [("hello", "hello"), ("World", "World"), ("x y", "x y"), ("a:b", "a:b"), ("42", "42"), ("true", "true"),
               ("ünï", "ünï"), ("build", "build")],
    "int": [("42", "42"), ("-7", "-7"), ("0", "0"), ("007", "7"), ("123456", "123456")],
    "bool": [("true", "true"), ("false", "false"), ("1", "true"), ("F", "false"), ("T", "true")],
    "dur": [("1s", "1s"), ("250ms", "250ms"), ("90s", "1m30s"), ("2h", "2h0m0s"), ("0", "0s")],
}

COMMENT_TAILS = [
    "does the thing.", "builds it all. Then it stops.", 'says "hello" to `you`.', "runs 100% of the tests; see a\\b.",
    "is\ttabless but has  two spaces.", "früh – spät été.", "handles 'single' quotes, $VARS and %d verbs.",
    "ends without a period", "has a colon: and more. Second sentence.", "uses e.g. an abbreviation. And goes on.",
    "is first.\nSecond line of the comment.\nThird line.", "has a blank line below.\n\nNew paragraph here.",
    "contains \\n and \\t escapes and a \\ backslash.", "{{.NotATemplate}} and {{end}} survive.", "a CR \r inside.",
]


# ---------------------------------------------------------------- identifier spelling (Unicode)
# Non-ASCII identifiers: 2-, 3- and 4-byte letters; upper-case non-ASCII first letters (exported by Go's rule
# unicode.IsUpper), title-case and caseless first letters (never exported), digits / underscores anywhere,
# camel-case and abbreviation boundaries next to multi-byte letters, a name whose lower case has another length.
UNI_FUNC_NAMES = ["Café", "CaféAll", "Déploy", "Señal", "Build世界", "Go𐐨", "B_é", "N2é3", "HTMLé", "CaféÉtoile",   # ... é is no capital
                  "Émettre", "Ärger", "Ωmega", "Дом", "X𝒜", "BuildÜber", "HTMLÉdit", "ÉCOLEBuild", "Ǆungla", "İstanbul",
                  "Σ", "ÉB", "Été2_x", "AÉ", "AéB"]
UNI_LOWER_NAMES = ["été", "世界", "élan", "ǅemal", "_Émile", "ñu", "émettre", "ωmega", "ſtart"]
UNI_NS_NAMES = ["Dépôt", "Señor", "Über", "Ärzte", "Ωps", "Web世", "ÉT"]
UNI_LOWER_NS = ["世", "élite"]
UNI_METHOD_NAMES = ["Démarrer", "Façade", "Émettre", "Ölen", "Run世", "ÉCrire", "Д"]
UNI_LOWER_METHODS = ["日本", "écrire"]
UNI_PARAM_NAMES = ["größe", "名", "é", "Ünï", "x世"]
UNI_ALIASES = ["démo", "Über-kurz", "Étape", "世界"]

# spellings that coincide (up to letter case) with something the command line already knows: mage's commands
# and flags (-h -l -v -t -f -d -w -debug -compile -keep -gocmd -goos -goarch -ldflags -init -clean -version),
# "help", the program's own name, main, and the magic variables Default / Aliases (these two only where Go
# allows them next to the variables: as methods and alias keys)
CLI_FUNC_NAMES = ["Help", "Version", "Init", "Clean", "List", "L", "H", "V", "T", "F", "D", "W", "Debug", "Compile", "Keep",
                  "Gocmd", "Goos", "Goarch", "Ldflags", "Timeout", "Force", "Mage", "Main", "Verbose"]
CLI_NS_NAMES = ["Help", "Mage", "Main", "Init", "Compile", "L", "H", "Version", "Clean"]
CLI_METHOD_NAMES = ["Help", "Default", "Aliases", "Version", "Init", "List", "L", "H", "Main", "Clean", "Compile"]
CLI_ALIASES = ["help", "version", "init", "clean", "list", "l", "h", "v", "t", "default", "aliases", "mage", "main", "Help"]

_UNI = {}        # string -> {"exported", "lower", "safe"}: Go's own answers (harness/docview), set by the check


def set_unicode_table(infos):
    for i in infos:
        _UNI[i["name"]] = i


def all_pool_names():
    return sorted(set(UNI_FUNC_NAMES + UNI_LOWER_NAMES + UNI_NS_NAMES + UNI_LOWER_NS + UNI_METHOD_NAMES + UNI_LOWER_METHODS + UNI_ALIASES +
                      ["x" + n for n in UNI_NS_NAMES]))


def is_ascii(s):
    return all(ord(c) < 128 for c in s)


def exported(n):
    """ast.IsExported: Go's answer for non-ASCII names, A-Z for ASCII ones"""
    if n in _UNI:
        return _UNI[n]["exported"]
    assert is_ascii(n), "no Unicode information for %r" % n
    return "A" <= n[:1] <= "Z"


def go_lower(s):
    """strings.ToLower (rune by rune, so ':'-separated parts can be looked up separately)"""
    if is_ascii(s):
        return s.lower()
    if s in _UNI:
        return _UNI[s]["lower"]
    return ":".join(_UNI[p]["lower"] if p in _UNI else ascii_lower_checked(p) for p in s.split(":"))


def ascii_lower_checked(p):
    assert is_ascii(p), "no Unicode information for %r" % p
    return p.lower()


def model_safe(s):
    """inside the fragment in which the ASCII model (Model/Classify.v lower / is_upper / equal_fold) is Go"""
    return is_ascii(s) or (s in _UNI and _UNI[s]["safe"])


def ascii_upper(s):
    return "".join(c.upper() if ord(c) < 128 else c for c in s)


def ascii_lower(s):
    return "".join(c.lower() if ord(c) < 128 else c for c in s)


def package_identifiers(pkg):
    ids = [f["name"] for f in pkg["funcs"]] + [t["name"] for t in pkg["types"]]
    for v in pkg["vars"]:
        for sp in v["specs"]:
            for x in sp["values"]:
                if "map" in x:
                    ids += [k for k, _ in x["map"]]
    return ids


# ---------------------------------------------------------------- generation
def gen_comment(rng, name):
    """a doc comment: None or {"style": "line"|"block", "text": str}"""
    r = rng.random()
    if r < 0.25:
        return None
    tail = rng.choice(COMMENT_TAILS).replace("\t", " ")
    r = rng.random()
    if r < 0.45:
        first = name + " " + tail
    elif r < 0.55:
        first = ascii_upper(name) + " " + tail
    elif r < 0.65:
        first = ascii_lower(name) + " " + tail
    elif r < 0.72:
        first = name + ": " + tail
    elif r < 0.78:
        first = name
    elif r < 0.84:
        first = "Deprecated: " + tail
    else:
        first = tail[:1].upper() + tail[1:]
    style = "block" if rng.random() < 0.2 else "line"
    if style == "block":
        first = first.replace("*/", "* /")
    return {"style": style, "text": first}


_UNI_PARAMS = [False]


def gen_group_names(rng, used, k, allow_blank=True):
    out = []
    for _ in range(k):
        if allow_blank and rng.random() < 0.15:
            out.append("_")
        else:
            n = rng.choice([p for p in PARAM_NAMES + (UNI_PARAM_NAMES * 2 if _UNI_PARAMS[0] else []) if p not in used])
            used.add(n)
            out.append(n)
    return out


def gen_params(rng, defect=None):
    """list of groups {"names": [...], "ty": code or {"other": spelling}}; all named or all unnamed"""
    named = rng.random() < 0.75
    if defect in ("twoctx",):
        named = True
    used = set()
    groups = []

    def grp(ty, k=None):
        if not named:
            return {"names": [], "ty": ty}
        k = k or rng.choice([1, 1, 1, 2, 2, 3])
        return {"names": gen_group_names(rng, used, k), "ty": ty}

    ctx = rng.random() < 0.4
    if defect == "twoctx":
        groups.append({"names": gen_group_names(rng, used, 2, allow_blank=False), "ty": "ctx"})
    elif ctx or defect in ("ctxtwice",):
        groups.append(grp("ctx", 1))
    n = rng.choice([0, 0, 1, 1, 2, 2, 3, 4])
    if defect in ("latectx", "ctxtwice", "badparam") and n == 0:
        n = 1
    for _ in range(n):
        groups.append(grp(rng.choice(SUPPORTED)))
    if defect in ("latectx", "ctxtwice"):
        if defect == "latectx" and groups and groups[0]["ty"] == "ctx":
            groups.pop(0)
            if not groups:
                groups.append(grp(rng.choice(SUPPORTED)))
        pos = rng.randrange(1, len(groups) + 1)
        groups.insert(pos, grp("ctx", 1))
    if defect == "badparam":
        sp = rng.choice(LOOKALIKE_TYS) if rng.random() < 0.35 else rng.choice(OTHER_TYS + ["...string"])
        if sp == "...string":
            groups.append(grp({"other": sp}, 1))
        else:
            first_ok = 1 if (groups and groups[0]["ty"] == "ctx") else 0
            pos = rng.randrange(first_ok, len(groups) + 1)
            # an unsupported type may also take the place of the first parameter
            if rng.random() < 0.3 and groups and groups[0]["ty"] == "ctx":
                groups.pop(0)
                pos = 0
            groups.insert(pos, grp({"other": sp}))
    return groups


def gen_results(rng, defect=None):
    """list of groups {"names": k, "kind": "error"|"local"|"other", "spell": str, "zero": str}"""
    err = lambda k: {"names": k, "kind": "error", "spell": "error", "zero": "nil"}

    def other():
        s, z = rng.choice(RES_OTHER)
        return {"names": 0, "kind": "other", "spell": s, "zero": z}

    def local():
        s, z = rng.choice(RES_LOCAL)
        return {"names": 0, "kind": "local", "spell": s, "zero": z}

    if defect is None:
        return rng.choice([[], [], [], [err(0)], [err(0)], [err(1)]])
    if defect == "twonamed":
        return [err(rng.choice([2, 2, 3]))]
    if defect == "tworesults":
        r = rng.choice([[other(), err(0)], [err(0), err(0)], [err(0), other()], [local(), err(0)], [local(), local()],
                        [other(), other(), err(0)]])
        if rng.random() < 0.3:
            for g in r:
                g["names"] = 1
        return r
    if defect == "badresult":
        g = rng.choice([other(), other(), local()])
        g["names"] = rng.choice([0, 0, 1])
        return [g]
    raise ValueError(defect)


FUNC_DEFECTS = ["badparam", "badparam", "latectx", "twoctx", "ctxtwice", "twonamed", "tworesults", "badresult", "generic",
                "unexported"]


def gen_func(rng, name, recv, defect):
    pdef = defect if defect in ("badparam", "latectx", "twoctx", "ctxtwice") else None
    rdef = defect if defect in ("twonamed", "tworesults", "badresult") else None
    f = {"name": name, "recv": recv, "tparams": defect == "generic", "params": gen_params(rng, pdef),
         "res": gen_results(rng, rdef), "doc": gen_comment(rng, name), "defect": defect}
    return f


def on_generic(pkg, f):
    """a method of a generic type (its method expression T.M needs an instantiation)"""
    return bool(f["recv"]) and any(t.get("tparams") for t in pkg["types"] if t["name"] == f["recv"][0])


def gen_package(rng, size=None, simple=False, unicode=None, cli=None, nfiles=None):
    """simple: a few valid targets over string/int/bool only (base of the separate finding streams);
    unicode: draw identifiers from the non-ASCII pools too (None: one package in four)"""
    if unicode is None:
        unicode = rng.choice([False] * 6 + [True, "safe"]) if not simple else False
    # "safe": only spellings on which the ASCII model is Go (no non-ASCII capitals; see model_safe)
    keep = (lambda n: model_safe(n)) if unicode == "safe" else (lambda n: True)
    if cli is None:
        cli = (not simple) and rng.random() < 0.2
    clipool = {id(FUNC_NAMES): CLI_FUNC_NAMES, id(NS_NAMES): CLI_NS_NAMES, id(METHOD_NAMES): CLI_METHOD_NAMES} if cli else {}
    uni = lambda pool, extra: pool + ([n for n in extra if keep(n)] * 3 if unicode else []) + clipool.get(id(pool), []) * 2
    _UNI_PARAMS[0] = bool(unicode)
    nfiles = nfiles or (1 if simple else rng.choice([1, 1, 2, 2, 3]))
    size = size or rng.choice([2, 4, 6, 8, 10, 14])
    pkg = {"nfiles": nfiles, "pkgdoc": None, "types": [], "funcs": [], "vars": [], "helpers": []}
    taken = set()          # package-level identifiers, lower-cased (no case-insensitive collisions at all)

    def take(pool):
        c = [n for n in pool if go_lower(n) not in taken]
        if not c:
            return None
        n = rng.choice(c)
        taken.add(go_lower(n))
        return n

    # ("main" and "init" themselves are never generated; Main / Init are ordinary exported identifiers)
    for n in ("default", "aliases", "local", "ctx", "probe", "mg", "alt", "conf", "duration", "context"):
        taken.add(n)
    fileof = lambda: rng.randrange(nfiles)
    # types
    if not simple:
        ntypes = rng.choice([0, 1, 1, 2, 3])
        gid = 0
        for _ in range(ntypes):
            kind = rng.choice(["ns"] * 10 + ["fake"] * 3 + ["ns-unexported"] * 3 + ["ns-generic"] * 2 + ["struct", "struct", "int", "chain", "alias-ns"])
            if kind == "ns-unexported" and unicode and rng.random() < 0.5:
                nm = take([n for n in UNI_LOWER_NS if keep(n)])
                kind = "ns"
                if nm is None:
                    continue
            else:
                nm = take(uni(NS_NAMES, UNI_NS_NAMES))
                if nm is None:
                    break
                if kind == "ns-unexported":
                    taken.discard(go_lower(nm))
                    nm = (nm[0].lower() + nm[1:] + "ns") if is_ascii(nm) else ("x" + nm)
                    if go_lower(nm) in taken or (not is_ascii(nm) and nm not in _UNI) or not keep(nm):
                        continue
                    taken.add(go_lower(nm))
                    kind = "ns"
            if kind == "chain" and not [t for t in pkg["types"] if t["kind"] == "ns" and not t.get("tparams")]:
                kind = "struct"
            t = {"name": nm, "kind": kind, "file": fileof(), "group": None}
            if kind == "ns-generic":
                t["kind"], t["tparams"] = "ns", True
            if kind == "chain":
                t["of"] = rng.choice([t2["name"] for t2 in pkg["types"] if t2["kind"] == "ns" and not t2.get("tparams")])
            pkg["types"].append(t)
        # some types share one parenthesised declaration (same file)
        if len(pkg["types"]) >= 2 and rng.random() < 0.4:
            gid += 1
            f0 = pkg["types"][0]["file"]
            for t in pkg["types"][:2]:
                t["group"] = gid
                t["file"] = f0
    # functions
    for _ in range(size):
        defect = None
        if not simple and rng.random() < 0.42:
            defect = rng.choice(FUNC_DEFECTS)
        methodable = [t for t in pkg["types"] if t["kind"] not in ("alias-ns",)]
        if methodable and defect != "generic" and rng.random() < 0.4:
            t = rng.choice(methodable)
            pool = uni(LOWER_METHODS, UNI_LOWER_METHODS) if defect == "unexported" else uni(METHOD_NAMES, UNI_METHOD_NAMES)
            have = {go_lower(f["name"]) for f in pkg["funcs"] if f["recv"] and f["recv"][0] == t["name"]}
            c = [n for n in pool if go_lower(n) not in have]
            if not c:
                continue
            recv = [t["name"], rng.random() < 0.4, rng.choice(["", "r", "_"])]
            f = gen_func(rng, rng.choice(c), recv, defect)
            if any(n == recv[2] for g in f["params"] for n in g["names"]):
                recv[2] = ""
        else:
            nm = take(uni(LOWER_NAMES, UNI_LOWER_NAMES) if defect == "unexported" else uni(FUNC_NAMES, UNI_FUNC_NAMES))
            if nm is None:
                continue
            f = gen_func(rng, nm, None, defect)
        if simple:
            f["params"] = [g for g in f["params"] if g["ty"] in ("string", "int", "bool")]
            f["doc"] = None if f["doc"] is None else {"style": "line", "text": f["name"] + " does the thing."}
        f["file"] = fileof()
        pkg["funcs"].append(f)
    if simple:
        return pkg
    # package comment
    if rng.random() < 0.6:
        pkg["pkgdoc"] = {"style": rng.choice(["line", "line", "block"]),
                         "text": rng.choice(["Package main has `back-quotes`, \"quotes\" and a \\ backslash.",
                                             "Build script for the project.\nSecond line with 100% %s verbs.",
                                             "magefile – tâches.\n\nA second paragraph {{.X}}.",
                                             "One liner", "Ends with a CR \r inside a line."])}
    valid = [f for f in pkg["funcs"] if oracle_valid(pkg, f)]
    refable = [f for f in valid if not (f["recv"] and f["recv"][1])]      # NS.M needs a value receiver
    ref_of = lambda f: ["sel", f["recv"][0], f["name"]] if f["recv"] else ["ident", f["name"]]
    # default
    if rng.random() < 0.55:
        r = rng.random()
        cand = None
        if r < 0.8 and refable:
            cand = rng.choice(refable)
        else:
            nonv = [f for f in pkg["funcs"] if not oracle_valid(pkg, f) and not f["tparams"] and not (f["recv"] and f["recv"][1]) and not on_generic(pkg, f)]
            if nonv:
                cand = rng.choice(nonv)
        if cand is not None and rng.random() < 0.5:
            nss = [t for t in pkg["types"] if t["kind"] == "ns" and exported(t["name"]) and not t.get("tparams")]
            twin = None
            if not cand["recv"] and nss:
                t = rng.choice(nss)
                if not [f for f in pkg["funcs"] if f["recv"] and f["recv"][0] == t["name"] and go_lower(f["name"]) == go_lower(cand["name"])]:
                    twin = gen_func(rng, cand["name"], [t["name"], rng.random() < 0.4, ""], None)
            elif cand["recv"] and go_lower(cand["name"]) not in taken:
                taken.add(go_lower(cand["name"]))
                twin = gen_func(rng, cand["name"], None, None)
            if twin is not None:
                twin["file"] = fileof()
                pkg["funcs"].append(twin)
                valid.append(twin)
                if not (twin["recv"] and twin["recv"][1]):
                    refable.append(twin)
        if cand is not None:
            spec = {"names": ["Default"], "values": [{"ref": ref_of(cand)}]}
            shape = rng.choice(["plain", "plain", "paren", "grouped", "multi", "multi-block"])
            specs = [spec]
            if shape in ("multi", "multi-block"):
                others = [f for f in pkg["funcs"] if not f["tparams"] and not (f["recv"] and f["recv"][1]) and f is not cand and not on_generic(pkg, f)]
                extra = [n for n in (take(["VarA", "VarB", "varC", "VarD"]) for _ in range(rng.choice([1, 2]))) if n]
                vals = [{"ref": ref_of(rng.choice(others))} if others and rng.random() < 0.6 else {"lit": "7"} for _ in extra]
                pos = rng.randrange(len(extra) + 1)
                spec = {"names": extra[:pos] + ["Default"] + extra[pos:], "values": vals[:pos] + spec["values"] + vals[pos:]}
                specs = [spec]
                if shape == "multi-block":
                    pre = [n for n in (take(["VarE", "VarF"]) for _ in range(2)) if n]
                    post = [n for n in [take(["VarQ"])] if n]
                    specs = ([{"names": pre, "values": [{"lit": str(i)} for i, _ in enumerate(pre)]}] if pre else []) + [spec] + \
                        [{"names": [n], "values": [{"ref": ref_of(rng.choice(others))} if others else {"lit": "1"}]} for n in post]
            if shape == "grouped":
                before = [{"names": [n], "values": [{"lit": rng.choice(['"1.0"', "42", "true"])}]}
                          for n in filter(None, [take(["Version", "Answer", "Level", "quiet", "debugMode"]) for _ in range(rng.choice([1, 2]))])]
                after = [{"names": [n], "values": [{"lit": "7"}]} for n in filter(None, [take(["Jobs", "retries"])]) if rng.random() < 0.5]
                specs = before + [spec] + after
            pkg["vars"].append({"file": fileof(), "paren": shape not in ("plain", "multi"), "specs": specs})
    # aliases
    if refable and rng.random() < 0.4:
        kvs = []
        keys = {go_lower(oracle_key(f)) for f in valid}
        apool = [a for a in ["al1", "b2", "zz", "Short", "x-y"] + ([n for n in UNI_ALIASES if keep(n)] if unicode else []) + (CLI_ALIASES * 2 if cli else [])
                 if go_lower(a) not in keys]
        chosen = []
        # an alias may be a proper prefix of the name of ANOTHER target or of a namespace: it is still that alias
        longer = [f["name"] for f in valid if not f["recv"]] + [t["name"] for t in pkg["types"] if t["kind"] == "ns"] + \
            [oracle_key(f) for f in valid if f["recv"]]
        pref = [go_lower(n)[:k2] for n in longer if is_ascii(n) for k2 in range(1, len(n)) if ":" not in n[:k2] or k2 > n.index(":") + 1]
        pref = [a for a in pref if a not in keys and not a.endswith(":")]
        if pref and rng.random() < 0.6:
            chosen.append(rng.choice(pref))
        for a in rng.sample(apool, min(len(apool), rng.choice([1, 2, 3]))):
            if go_lower(a) not in {go_lower(x) for x in chosen}:
                chosen.append(a)
        for a in chosen:
            kvs.append([a, ref_of(rng.choice(refable))])
        pkg["vars"].append({"file": fileof(), "paren": False, "specs": [{"names": ["Aliases"], "values": [{"map": kvs}]}]})
    # harmless helper identifiers
    for _ in range(rng.choice([0, 1, 2, 4])):
        n = take(HARMLESS)
        if n:
            pkg["helpers"].append({"kind": rng.choice(["func", "var", "const", "type"]), "name": n, "file": fileof()})
    return pkg


# ---------------------------------------------------------------- the separate streams
# plausible English target / namespace names (colours first: the generated main has a colour table)
ENGLISH_NAMES = ["Black", "Red", "Green", "Yellow", "Blue", "Magenta", "Cyan", "White", "BrightBlack", "BrightRed", "BrightGreen",
                 "BrightYellow", "BrightBlue", "BrightMagenta", "BrightCyan", "BrightWhite", "Color", "Colors", "Reset",
                 "Build", "Test", "List", "Args", "Log", "Logger", "Help", "Run", "Clean", "Install", "Deploy", "Release", "Lint", "Fmt",
                 "Vet", "Generate", "Docs", "Check", "All", "Dev", "Watch", "Up", "Down", "Start", "Stop", "Exit", "Fatal", "Error",
                 "Errors", "Context", "Target", "Targets", "Keys", "Name", "Usage", "Flag", "Time", "Os", "Signal", "Strconv", "Syscall",
                 "Sort", "Strings", "Filepath", "Ioutil", "Tabwriter", "Code", "Env", "Val", "Ok", "Err", "Ctx", "Cancel", "Expected"]
GO_KEYWORDS = ["break", "case", "chan", "const", "continue", "default", "defer", "else", "fallthrough", "for", "func", "go", "goto", "if",
               "import", "interface", "map", "package", "range", "return", "select", "struct", "switch", "type", "var"]


def gen_named(rng, fnames, nsnames, helper_names=()):
    """a package whose targets / namespace types / helper identifiers carry the given names"""
    pkg = {"nfiles": 1, "pkgdoc": None, "types": [], "funcs": [], "vars": [], "helpers": []}
    _UNI_PARAMS[0] = False
    for n in fnames:
        f = gen_func(rng, n, None, None)
        f["params"] = [g for g in f["params"] if g["ty"] in ("string", "int", "bool")]
        f["file"] = 0
        pkg["funcs"].append(f)
    for n in nsnames:
        pkg["types"].append({"name": n, "kind": "ns", "file": 0, "group": None, "qual": "mg"})
        for m in rng.sample([x for x in list(fnames) + METHOD_NAMES], 2):
            if m.lower() in {f["name"].lower() for f in pkg["funcs"] if f["recv"] and f["recv"][0] == n}:
                continue
            f = gen_func(rng, m, [n, rng.random() < 0.3, ""], None)
            f["params"] = [g for g in f["params"] if g["ty"] in ("string", "int", "bool")]
            f["file"] = 0
            pkg["funcs"].append(f)
    for n in helper_names:
        pkg["helpers"].append({"kind": rng.choice(["func", "var", "const", "type"]), "name": n, "file": 0, "bare": True})
    return pkg


def pack_names(rng, names, per=8):
    """packages of functions and namespace types named after the candidates (no two names equal up to case in one package)"""
    names = sorted(set(n for n in names if n not in ("Default", "Aliases", "Local", "Ctx", "Duration", "Context_")))
    rng.shuffle(names)
    pkgs, i = [], 0
    while i < len(names):
        chunk, seen = [], set()
        while i < len(names) and len(chunk) < per:
            if names[i].lower() not in seen:
                seen.add(names[i].lower())
                chunk.append(names[i])
            i += 1
        k = max(1, len(chunk) // 3)
        pkgs.append(gen_named(rng, chunk[k:], chunk[:k]))
        pkgs.append(gen_named(rng, chunk[:k], chunk[k:k + 3]))
    return pkgs


MG_VARIANTS = ["renamed-first", "renamed-all", "twice", "dot", "othermg", "alias-of-ns", "local-mg-ident"]


def gen_mg_imports(rng, variant):
    """the import of mage's mg package as a dimension (import names are per FILE)"""
    pkg = gen_package(rng, unicode=False, cli=False, nfiles=2, size=rng.choice([4, 6, 8]))
    pkg["types"] = [t for t in pkg["types"] if t["kind"] == "ns" and not t.get("tparams")]
    pkg["funcs"] = [f for f in pkg["funcs"] if not f["recv"] or f["recv"][0] in {t["name"] for t in pkg["types"]}]
    for t in pkg["types"]:
        t["group"] = None
    used = {go_lower(x) for x in package_identifiers(pkg)} | {go_lower(h["name"]) for h in pkg["helpers"]} | \
        {go_lower(n) for v in pkg["vars"] for sp in v["specs"] for n in sp["names"]}

    def add_ns(file, qual, nmeth=2):
        nm = [n for n in NS_NAMES if go_lower(n) not in used][0]
        used.add(go_lower(nm))
        pkg["types"].append({"name": nm, "kind": "ns", "file": file, "group": None, "qual": qual})
        for m in rng.sample(METHOD_NAMES, nmeth):
            f = gen_func(rng, m, [nm, rng.random() < 0.3, ""], None)
            f["file"] = rng.randrange(2)
            pkg["funcs"].append(f)
        return nm

    raw = lambda name, text, file: pkg["helpers"].append({"kind": "raw", "name": name, "file": file, "text": text})
    if variant == "renamed-first":       # file 0 knows mg as mage (and uses it), file 1 declares namespaces plainly
        for t in pkg["types"]:
            t["file"], t["qual"] = 1, "mg"
        add_ns(1, "mg")
        if rng.random() < 0.5:
            add_ns(0, "mage")
        else:
            raw("_", "var _ mage.Namespace\n", 0)
    elif variant == "renamed-all":
        for t in pkg["types"]:
            t["qual"] = "mage"
        add_ns(rng.randrange(2), "mage")
    elif variant == "twice":             # one file imports mg twice, plainly and renamed
        for t in pkg["types"]:
            t["file"], t["qual"] = 0, rng.choice(["mg", "mage"])
        add_ns(0, "mg")
        add_ns(0, "mage")
    elif variant == "dot":
        for t in pkg["types"]:
            t["file"], t["qual"] = 0, "."
        add_ns(0, ".")
        add_ns(1, "mg")
        pkg["dotmg_files"] = [0]
    elif variant == "othermg":           # file 0 imports ANOTHER package called mg (and the real one as mage)
        for t in pkg["types"]:
            t["file"], t["qual"] = 1, "mg"
        add_ns(0, "othermg")
        add_ns(0, "mage")
        add_ns(1, "mg")
        pkg["othermg_files"] = [0]
    elif variant == "alias-of-ns":       # type B = A with A a namespace: a method declared on B is a method of A
        for t in pkg["types"]:
            t["qual"] = "mg"
        a = add_ns(rng.randrange(2), "mg")
        b = [n for n in NS_NAMES if go_lower(n) not in used][0]
        used.add(go_lower(b))
        pkg["types"].append({"name": b, "kind": "alias-of", "of": a, "file": rng.randrange(2), "group": None})
        have = {f["name"] for f in pkg["funcs"] if f["recv"] and f["recv"][0] == a}
        f = gen_func(rng, [m for m in METHOD_NAMES if m not in have][0], [b, False, ""], None)
        f["file"] = rng.randrange(2)
        pkg["funcs"].append(f)
    elif variant == "local-mg-ident":    # every file imports mg as mage; the package has an identifier mg of its own
        for t in pkg["types"]:
            t["qual"] = "mage"
        add_ns(0, "mage")
        raw("mg", rng.choice(["type mg struct{}\n", "func mg() {}\n", "var mg = 1\n"]), rng.randrange(2))
    else:
        raise ValueError(variant)
    # Default / Aliases may name methods of types the oracle does not decide: drop such declarations
    pkg["vars"] = [v for v in pkg["vars"] if not any(n in ("Default", "Aliases") for sp in v["specs"] for n in sp["names"])]
    return pkg


MAGIC_VARIANTS = ["local-default-only", "local-before-package", "closure-aliases", "init-default", "method-local", "const-default",
                  "func-default", "test-file", "tagged-out-file"]


def gen_magic_lookalike(rng, variant):
    """declarations that LOOK like the magic package-level variables Default / Aliases but are not"""
    pkg = gen_package(rng, unicode=False, cli=False, nfiles=2, size=rng.choice([4, 6]))
    valid = [f for f in pkg["funcs"] if oracle_valid(pkg, f) and not f["recv"]]
    while len(valid) < 2:
        nm = [n for n in FUNC_NAMES if go_lower(n) not in {go_lower(x) for x in package_identifiers(pkg)} | {go_lower(h["name"]) for h in pkg["helpers"]}
              | {go_lower(n2) for v in pkg["vars"] for sp in v["specs"] for n2 in sp["names"]}][0]
        f = gen_func(rng, nm, None, None)
        f["params"], f["file"] = [], 1
        pkg["funcs"].append(f)
        valid.append(f)
    host, other = valid[0], valid[1]
    host["file"] = 0                      # the look-alike lives in the file that sorts first
    has_default = any("Default" in sp["names"] for v in pkg["vars"] for sp in v["specs"])
    strip = lambda name: [v for v in pkg["vars"] if not any(name in sp["names"] for sp in v["specs"])]
    raw = lambda name, text, file: pkg["helpers"].append({"kind": "raw", "name": name, "file": file, "text": text})
    ref = other["name"]
    if variant == "local-default-only":          # no package-level Default at all
        pkg["vars"] = strip("Default")
        host["body_extra"] = ["var Default = %s" % ref, "_ = Default"]
    elif variant == "local-before-package":      # a package-level Default in the LATER file, a local one earlier
        pkg["vars"] = strip("Default") + [{"file": 1, "paren": False, "specs": [{"names": ["Default"], "values": [{"ref": ["ident", host["name"]]}]}]}]
        host["body_extra"] = ["var Default = %s" % ref, "_ = Default"]
    elif variant == "closure-aliases":
        pkg["vars"] = strip("Aliases")
        host["body_extra"] = ["func() {", "\tvar Aliases = map[string]interface{}{\"zz9\": %s}" % ref, "\t_ = Aliases", "}()"]
    elif variant == "init-default":
        pkg["vars"] = strip("Default")
        raw("init", "func init() {\n\tvar Default, Aliases = %s, map[string]interface{}{\"zz8\": %s}\n\t_, _ = Default, Aliases\n}\n" % (ref, ref), 0)
    elif variant == "method-local":
        pkg["vars"] = strip("Default")
        raw("holder", "type holder struct{}\n\nfunc (holder) Run() {\n\tvar (\n\t\tDefault = %s\n\t)\n\tDefault()\n}\n" % ref if not other["params"] and not other["res"]
            else "type holder struct{}\n\nfunc (holder) Run() {\n\tvar Default = %s\n\t_ = Default\n}\n" % ref, 0)
    elif variant == "const-default":
        pkg["vars"] = strip("Default")
        raw("Default", "const Default = \"%s\"\n" % ref, 0)
    elif variant == "func-default":              # an exported FUNCTION called Default (so no variable of that name)
        pkg["vars"] = strip("Default")
        f = gen_func(rng, "Default", None, None)
        f["file"] = 1
        pkg["funcs"].append(f)
    elif variant == "test-file":                 # a _test.go file is not part of the package the go tool builds
        pkg["vars"] = strip("Default")
        pkg["extra_files"] = {"aa_default_test.go": "//go:build mage\n\npackage main\n\nvar Default = %s\n" % ref}
    elif variant == "tagged-out-file":           # excluded by a build constraint
        pkg["vars"] = strip("Default")
        pkg["extra_files"] = {"aa_default_other.go": "//go:build mage && neverset\n\npackage main\n\nvar Default = %s\n\nfunc OnlyWithTag() {}\n" % ref}
    else:
        raise ValueError(variant)
    return pkg


# ---------------------------------------------------------------- build-constraint variant files
def variant_plan(rng, goversion):
    """(tag, own|import, environment mode) of one run: pairs of files constrained on T / !T"""
    m = re.match(r"go1\.(\d+)", goversion)
    newest = int(m.group(1)) if m else 21
    plan = [("cgo", "import", "cgo-unset"), ("cgo", "import", "cgo-1"), ("cgo", "own", "cgo-unset"), ("cgo", rng.choice(["own", "import"]), "default"),
            ("go1.%d" % newest, "own", "default"), ("go1.%d" % newest, "import", "default"), ("go1.%d" % max(2, newest // 2), rng.choice(["own", "import"]), "default"),
            ("custom", "import", "default")]
    for t in ("linux", "amd64", "unix", "gc"):
        plan.append((t, rng.choice(["own", "import"]), "default"))
    return plan


def _variant_funcs(rng, tag, which):
    _UNI_PARAMS[0] = False
    out = []
    for name in ("Variant", "OnlyOn" if which == "on" else "OnlyOff"):
        f = gen_func(rng, name, None, None)
        f["params"] = [g for g in f["params"] if g["ty"] in ("string", "int", "bool")]
        f["doc"] = {"style": "line", "text": "%s is what the %s variant (%s%s) declares. Second sentence." % (name, which, "" if which == "on" else "!", tag)}
        f["imp_prefix"] = which + "@"            # the token the body prints: which variant's code ran
        f["file"] = 0
        f["variant_added"] = True
        out.append(f)
    return out


def gen_variants(rng, tag, where, envmode):
    pkg = gen_package(rng, unicode=False, cli=False, nfiles=rng.choice([1, 2]), size=rng.choice([2, 4]))
    used = {go_lower(x) for x in package_identifiers(pkg)} | {go_lower(h["name"]) for h in pkg["helpers"]}
    if where == "own" and ({"variant", "onlyon", "onlyoff"} & used):
        pkg["funcs"] = [f for f in pkg["funcs"] if f["recv"] or go_lower(f["name"]) not in ("variant", "onlyon", "onlyoff")]
    pkg["variant"] = {"tag": tag, "where": where, "envmode": envmode,
                      "funcs": {"on": _variant_funcs(rng, tag, "on"), "off": _variant_funcs(rng, tag, "off")}}
    if where == "import":
        akeys = {go_lower(k) for v in pkg["vars"] for sp in v["specs"] for x in sp["values"] if "map" in x for k, _ in x["map"]}
        plain = {go_lower(f["name"]) for f in pkg["funcs"] if not f["recv"]} | akeys
        alias = None if not ({"variant", "onlyon", "onlyoff", "plain"} & plain) and rng.random() < 0.5 else "vl"
        base = gen_func(rng, "Plain", None, None)
        base["params"] = [g for g in base["params"] if g["ty"] in ("string", "int", "bool")]
        base["imp_prefix"], base["key_prefix"], base["file"] = "imp~varlib.", (alias + ":") if alias else "", 0
        for fs in pkg["variant"]["funcs"].values():
            for f in fs:
                f["imp_prefix"] = "imp~varlib." + f["imp_prefix"]
                f["key_prefix"] = (alias + ":") if alias else ""
        pkg["imports"] = [{"name": "varlib", "path": "imp/varlib", "alias": alias, "funcs": [base]}]
    return pkg


def variant_reset(pkg):
    """forget an earlier selection (a replayed case is selected afresh)"""
    pkg["funcs"] = [f for f in pkg["funcs"] if not f.get("variant_added")]
    for imp in pkg.get("imports", []):
        imp["funcs"] = [f for f in imp["funcs"] if not f.get("variant_added")]


def variant_select(pkg, which):
    v = pkg["variant"]
    (pkg["funcs"] if v["where"] == "own" else pkg["imports"][0]["funcs"]).extend(v["funcs"][which])


def variant_files(pkg, pname):
    v = pkg.get("variant")
    if not v:
        return {}
    out = {}
    for which in ("on", "off"):
        cons = ("" if which == "on" else "!") + v["tag"]
        text = "\n".join(render_func(f) for f in v["funcs"][which])
        if v["where"] == "own":
            out["var_%s.go" % which] = "//go:build mage && %s\n\npackage main\n\nimport \"example.test/%s/probe\"\n\n%s" % (cons, pname, text)
        else:
            out["imp/varlib/var_%s.go" % which] = "//go:build %s\n\npackage varlib\n\nimport \"example.test/%s/probe\"\n\n%s" % (cons, pname, text)
    return out


DECL_FORMS = ["default:typed-literal", "default:typed-unexported", "default:typed-exported", "default:group-doc", "default:paren-value",
              "default:conv-value", "aliases:typed-literal", "aliases:typed-unexported", "aliases:typed-exported", "aliases:named-composite",
              "aliases:group-doc"]


def gen_decl_form(rng, form):
    """the DECLARATION FORM of the magic variables: typed with a literal / an unexported / an exported named type, inside a
    documented group, with a parenthesised or converted value"""
    pkg = gen_package(rng, unicode=False, cli=False, nfiles=rng.choice([1, 2, 2]), size=rng.choice([3, 5]))
    which, kind = form.split(":")
    magic = "Default" if which == "default" else "Aliases"
    pkg["vars"] = [v for v in pkg["vars"] if not any(magic in sp["names"] for sp in v["specs"])]
    used = {go_lower(x) for x in package_identifiers(pkg)} | {go_lower(h["name"]) for h in pkg["helpers"]} | \
        {go_lower(n) for v in pkg["vars"] for sp in v["specs"] for n in sp["names"]}
    nm = [n for n in FUNC_NAMES if go_lower(n) not in used][0]
    used.add(go_lower(nm))
    witherr = rng.random() < 0.5
    f = gen_func(rng, nm, None, None)            # the function the declaration names: no parameters
    f["params"], f["file"] = [], rng.randrange(pkg["nfiles"])
    f["res"] = [{"names": 0, "kind": "error", "spell": "error", "zero": "nil"}] if witherr else []
    pkg["funcs"].append(f)
    sig = "func() error" if witherr else "func()"
    fileno = rng.randrange(pkg["nfiles"])
    tname = lambda exported_: [n for n in (["Step", "Stage", "Task"] if exported_ else ["step", "stage", "task"]) if go_lower(n) not in used][0]
    mname = lambda exported_: [n for n in (["Shortcuts", "Abbrevs"] if exported_ else ["shortcuts", "abbrevs"]) if go_lower(n) not in used][0]
    helper = lambda n, text: pkg["helpers"].append({"kind": "type", "name": n, "file": rng.randrange(pkg["nfiles"]), "text": text})
    ref = {"ref": ["ident", nm]}
    spec = {"names": [magic], "values": [ref]}
    decl = {"file": fileno, "paren": False, "specs": [spec]}
    if which == "default":
        if kind == "typed-literal":
            spec["typed"] = sig
        elif kind in ("typed-unexported", "typed-exported"):
            t = tname(kind == "typed-exported")
            helper(t, "type %s %s\n" % (t, sig))
            spec["typed"] = t
        elif kind == "group-doc":
            decl.update(paren=True, doc="%s is what plain `mage` runs." % magic)
            decl["specs"] = [{"names": ["Retries"], "values": [{"lit": "3"}]}, spec, {"names": ["quietMode"], "values": [{"lit": "true"}]}]
        elif kind == "paren-value":
            ref["wrap"] = "paren"
        elif kind == "conv-value":
            t = tname(False)
            helper(t, "type %s %s\n" % (t, sig))
            ref["wrap"] = "conv:" + t
    else:
        m = {"map": [[rng.choice(["bb", "q2", "sc"]), ["ident", nm]]]}
        spec["values"] = [m]
        if kind == "typed-literal":
            spec["typed"] = "map[string]interface{}"
        elif kind in ("typed-unexported", "typed-exported"):
            t = mname(kind == "typed-exported")
            helper(t, "type %s map[string]interface{}\n" % t)
            spec["typed"] = t
            m["maptype"] = t
        elif kind == "named-composite":
            t = mname(False)
            helper(t, "type %s map[string]interface{}\n" % t)
            m["maptype"] = t
        elif kind == "group-doc":
            decl.update(paren=True, doc="Aliases are short names.")
            decl["specs"] = [{"names": ["Retries"], "values": [{"lit": "3"}]}, spec]
    pkg["vars"].append(decl)
    return pkg


def gen_with_imports(rng):
    """a package that mage:import's two packages (one bare, one under an alias) whose target names coincide with
    names of the magefile's own namespace METHODS and with prefixes of its target names"""
    pkg = gen_package(rng, unicode=False, cli=False, nfiles=rng.choice([1, 2]), size=rng.choice([4, 6, 8]))
    used = {go_lower(x) for x in package_identifiers(pkg)} | {go_lower(h["name"]) for h in pkg["helpers"]} | \
        {go_lower(n) for v in pkg["vars"] for sp in v["specs"] for n in sp["names"]}
    nss = [t for t in pkg["types"] if real_namespace(t) and exported(t["name"]) and not t.get("tparams")]
    if not nss:
        nm = [n for n in NS_NAMES if go_lower(n) not in used][0]
        used.add(go_lower(nm))
        nss = [{"name": nm, "kind": "ns", "file": 0, "group": None, "qual": "mg"}]
        pkg["types"].append(nss[0])
    t = nss[0]
    have = {go_lower(f["name"]) for f in pkg["funcs"] if f["recv"] and f["recv"][0] == t["name"]}
    for m in [m for m in rng.sample(METHOD_NAMES, 3) if go_lower(m) not in have][:2]:
        f = gen_func(rng, m, [t["name"], rng.random() < 0.3, ""], None)
        f["file"] = rng.randrange(pkg["nfiles"])
        pkg["funcs"].append(f)
    valid = [f for f in pkg["funcs"] if oracle_valid(pkg, f)]
    akeys = {go_lower(k) for v in pkg["vars"] for sp in v["specs"] for x in sp["values"] if "map" in x for k, _ in x["map"]}
    plain = {go_lower(f["name"]) for f in valid if not f["recv"]} | akeys
    method_names = [f["name"] for f in valid if f["recv"]]
    prefixes = [f["name"][:k] for f in valid if not f["recv"] and is_ascii(f["name"]) for k in range(1, len(f["name"]))]
    pkg["imports"] = []
    for name, alias in (("lib", None), ("cloudlib", rng.choice(["cl", "ext"]))):
        cands = method_names * 2 + prefixes + rng.sample(FUNC_NAMES, 3)
        rng.shuffle(cands)
        chosen = []
        for c in cands:
            if len(chosen) >= 3:
                break
            if go_lower(c) in {go_lower(x) for x in chosen}:
                continue
            if alias is None and (go_lower(c) in plain or go_lower(c) in used):
                continue        # a bare-imported name equal to a local target / alias is a collision (C07)
            chosen.append(c)
        funcs = []
        for c in chosen:
            f = gen_func(rng, c, None, None)
            f["params"] = [g for g in f["params"] if g["ty"] in ("string", "int", "bool")]
            f["imp_prefix"] = "imp~%s." % name
            f["key_prefix"] = (alias + ":") if alias else ""
            f["file"] = 0
            funcs.append(f)
            if alias is None:
                plain.add(go_lower(c))
        pkg["imports"].append({"name": name, "path": "imp/" + name, "alias": alias, "funcs": funcs})
    return pkg


def gen_cli_words(rng, force=None):
    """a package whose targets are spelled like words the command line knows; `force`: that function exists"""
    pkg = gen_package(rng, cli=True, unicode=False)
    names = [force] if force else []
    names += rng.sample(CLI_FUNC_NAMES, 2)
    for nm in names:
        have = {go_lower(f["name"]) for f in pkg["funcs"] if not f["recv"]} | {go_lower(t["name"]) for t in pkg["types"]} | \
            {go_lower(h["name"]) for h in pkg["helpers"]} | {go_lower(n) for v in pkg["vars"] for sp in v["specs"] for n in sp["names"]}
        akeys = {go_lower(k) for v in pkg["vars"] for sp in v["specs"] for x in sp["values"] if "map" in x for k, _ in x["map"]}
        if go_lower(nm) in have or go_lower(nm) in akeys:
            continue
        _UNI_PARAMS[0] = False
        f = gen_func(rng, nm, None, None)
        f["file"] = 0
        pkg["funcs"].append(f)
    return pkg


def gen_unicode(rng, safe=False):
    """a package with non-ASCII identifiers; at least one exported function whose first camel-case word ends
    in a multi-byte letter"""
    pkg = gen_package(rng, unicode="safe" if safe else True)
    must = ["Café", "CaféAll", "B_é", "Go𐐨", "Build世界"] + ([] if safe else ["CaféÉtoile", "AéB"])
    if not [f for f in pkg["funcs"] if f["name"] in must and oracle_valid(pkg, f)]:
        have = {go_lower(f["name"]) for f in pkg["funcs"] if not f["recv"]} | {go_lower(t["name"]) for t in pkg["types"]} | \
            {go_lower(h["name"]) for h in pkg["helpers"]}
        c = [n for n in must if go_lower(n) not in have]
        if c:
            _UNI_PARAMS[0] = True
            f = gen_func(rng, rng.choice(c), None, None)
            f["file"] = 0
            pkg["funcs"].append(f)
    return pkg


def gen_default_shape(rng, shape):
    """packages whose Default declaration shares a var declaration with multi-name specs"""
    pkg = gen_package(rng, size=3, simple=True)
    fs = [f for f in pkg["funcs"] if not f["recv"]]
    while len(fs) < 2:
        nm = [n for n in FUNC_NAMES if n.lower() not in {f["name"].lower() for f in pkg["funcs"]}][0]
        f = gen_func(rng, nm, None, None)
        f["params"] = []
        f["file"] = 0
        pkg["funcs"].append(f)
        fs.append(f)
    a, b = fs[0], fs[1]
    ra, rb = {"ref": ["ident", a["name"]]}, {"ref": ["ident", b["name"]]}
    if shape == "wrong-spec":        # var ( A, B = 1, 2; Default = a; Q = b )
        specs = [{"names": ["VarA", "VarB"], "values": [{"lit": "1"}, {"lit": "2"}]}, {"names": ["Default"], "values": [ra]},
                 {"names": ["VarQ"], "values": [rb]}]
        paren = True
    elif shape == "panic-multi":     # var X, Default = b, a
        specs = [{"names": ["VarX", "Default"], "values": [rb, ra]}]
        paren = False
    elif shape == "ok-unexported-first":   # var ( a, b = 1, 2; Default = a ): go/doc drops the first spec
        specs = [{"names": ["lo", "hi"], "values": [{"lit": "1"}, {"lit": "2"}]}, {"names": ["Default"], "values": [ra]}]
        paren = True
    elif shape == "ok-first":        # var Default, Z = a, 1
        specs = [{"names": ["Default", "VarZ"], "values": [ra, {"lit": "1"}]}]
        paren = False
    elif shape == "no-own-value":    # var Default, VarY = twoFuncs(): Default has no value of its own
        specs = [{"names": ["Default", "VarY"], "values": [{"call": "twoFuncs"}]}]
        paren = False
        pkg["helpers"].append({"kind": "raw", "name": "twoFuncs", "file": 0,
                               "text": "func twoFuncs() (func(), func()) { return nil, nil }\n"})
    elif shape == "typed-no-value":  # var Default func()
        specs = [{"names": ["Default"], "typed": "func()", "values": []}]
        paren = False
    else:
        raise ValueError(shape)
    pkg["vars"] = [{"file": 0, "paren": paren, "specs": specs}]
    return pkg


def gen_clash(rng, cls, ident=None, kind=None):
    """a simple package + one package-level identifier named like an import / a predeclared identifier
    of the generated file, or a generic namespace type"""
    pkg = gen_package(rng, size=rng.choice([1, 2, 3]), simple=True)
    if cls == "import-name-clash":
        pkg["helpers"].append({"kind": rng.choice(["func", "var", "const", "type"]), "name": rng.choice(IMPORT_NAMES), "file": 0})
    elif cls == "predeclared-shadowed":
        n = ident or rng.choice(PREDECLARED)
        pkg["helpers"].append({"kind": kind or rng.choice(["func", "var", "const", "type"]), "name": n, "file": 0, "bare": True})
        for f in pkg["funcs"]:          # the redeclared identifier must not occur in the magefile's own signatures
            f["params"], f["res"] = [], []
    elif cls == "lookalike":
        # one exported function whose parameter type looks like a supported one
        sp = ident or rng.choice(LOOKALIKE_TYS + ["dot:Duration", "dot:Month"])
        nm = [x for x in FUNC_NAMES if x.lower() not in {f["name"].lower() for f in pkg["funcs"]}][0]
        f = gen_func(rng, nm, None, None)
        ty = {"other": sp[4:], "dot": True} if sp.startswith("dot:") else {"other": sp}
        f["params"] = [{"names": ["p"], "ty": ty}] + ([{"names": ["q"], "ty": "string"}] if rng.random() < 0.5 else [])
        f["res"] = rng.choice([[], [{"names": 0, "kind": "error", "spell": "error", "zero": "nil"}]])
        f["file"], f["defect"] = 0, "lookalike"
        pkg["funcs"].append(f)
    elif cls == "generic-namespace-type":
        pkg["types"].append({"name": "GenNS", "kind": "ns", "file": 0, "group": None, "tparams": True})
        f = gen_func(rng, "Build", ["GenNS", False, ""], None)
        f["params"] = []
        f["file"] = 0
        pkg["funcs"].append(f)
    else:
        raise ValueError(cls)
    return pkg


# ---------------------------------------------------------------- rendering
def render_comment(c, indent=""):
    if c is None:
        return ""
    if c["style"] == "block":
        return indent + "/* " + c["text"] + " */\n"
    return "".join(indent + ("// " + l if l else "//") + "\n" for l in c["text"].split("\n"))


def comment_words(c):
    """the words of a comment as written (markers and CRs removed: the Go scanner drops CRs)"""
    if c is None:
        return []
    return c["text"].replace("\r", "").split()


def go_ty(t):
    return GO_TY[t] if isinstance(t, str) else t["other"]


def render_func(f):
    tp = "[T any]" if f["tparams"] else ""
    recv = ""
    if f["recv"]:
        tn, ptr, rn = f["recv"]
        tpar = "[T]" if f.get("recv_generic") else ""
        recv = "(%s%s%s%s) " % (rn + " " if rn else "", "*" if ptr else "", tn, tpar)
    ps = ", ".join((", ".join(g["names"]) + " " if g["names"] else "") + go_ty(g["ty"]) for g in f["params"])
    rs = f["res"]
    if not rs:
        res = ""
    elif len(rs) == 1 and rs[0]["names"] == 0:
        res = " " + rs[0]["spell"]
    else:
        parts = []
        k = 0
        for g in rs:
            if g["names"] == 0:
                parts.append(g["spell"])
            else:
                parts.append(", ".join("r%d" % (k + i) for i in range(g["names"])) + " " + g["spell"])
                k += g["names"]
        res = " (" + ", ".join(parts) + ")"
    shown = [n for g in f["params"] if g["ty"] in SUPPORTED for n in g["names"] if n != "_"]
    call = ", ".join(['"%s"' % def_id(f)] + shown)
    zeros = [g["zero"] for g in rs for _ in range(max(1, g["names"]))]
    if len(rs) == 1 and rs[0]["kind"] == "error" and rs[0]["names"] <= 1:
        body = "\treturn probe.Call(%s)\n" % call          # the body's error is the function's result
    else:
        body = "\tprobe.Must(%s)\n" % call
        if zeros:
            body += "\treturn " + ", ".join(zeros) + "\n"
    body = "".join("\t" + l + "\n" for l in f.get("body_extra", [])) + body
    return render_comment(f["doc"]) + "func %s%s%s(%s)%s {\n%s}\n" % (recv, f["name"], tp, ps, res, body)


def def_id(f):
    """the identifier the body reports: package (for imported functions), receiver, name"""
    return f.get("imp_prefix", "") + (f["recv"][0] + "." if f["recv"] else "") + f["name"]


TYPE_UNDER = {"ns": "mg.Namespace", "alias-ns": "= mg.Namespace", "struct": "struct{}", "int": "int", "fake": "alt.Namespace"}
# t["qual"]: how the declaring file names the package of Namespace: "mg" (plain import), "mage" (renamed import
# of the real mg), "." (dot import of the real mg), "othermg" (ANOTHER package whose name is mg)
QUAL_TEXT = {None: "mg.Namespace", "mg": "mg.Namespace", "othermg": "mg.Namespace", "mage": "mage.Namespace", ".": "Namespace"}


def type_under(t):
    if t["kind"] == "chain":
        return t["of"]
    if t["kind"] == "alias-of":
        return "= " + t["of"]
    if t["kind"] == "ns":
        return QUAL_TEXT[t.get("qual")]
    return TYPE_UNDER[t["kind"]]


def textual_namespace(t):
    """isNamespace as the code has it: the declared type is textually mg.Namespace"""
    return t["kind"] == "alias-ns" or (t["kind"] == "ns" and t.get("qual") in (None, "mg", "othermg"))


def real_namespace(t):
    """by Go's type identity, unambiguously: declared as Namespace of the real mg package under its own name"""
    return t["kind"] == "ns" and t.get("qual") in (None, "mg")


def render_ref(r):
    if r[0] == "ident":
        return r[1]
    if r[0] == "sel":
        return r[1] + "." + r[2]
    return r[1]


def render_value(v):
    if "lit" in v:
        return v["lit"]
    if "call" in v:
        return v["call"] + "()"
    if "ref" in v:
        r = render_ref(v["ref"])
        w = v.get("wrap")          # (Build) / step(Build): the same function value, written as another expression
        return ("(%s)" % r) if w == "paren" else ("%s(%s)" % (w[5:], r) if w else r)
    return v.get("maptype", "map[string]interface{}") + "{\n" + "".join('\t"%s": %s,\n' % (k, render_ref(r)) for k, r in v["map"]) + "}"


def render_package(pkg, pname):
    """-> {relative path: text}"""
    nfiles = pkg["nfiles"]
    bodies = [[] for _ in range(nfiles)]
    need_local = any((not isinstance(g["ty"], str) and g["ty"]["other"] == "Local") for f in pkg["funcs"] for g in f["params"]) or \
        any("Local" in g["spell"] for f in pkg["funcs"] for g in f["res"])
    need_lower_local = any("local" in g["spell"] for f in pkg["funcs"] for g in f["res"])
    need_ctx_alias = any((not isinstance(g["ty"], str) and g["ty"]["other"] == "Ctx") for f in pkg["funcs"] for g in f["params"])
    if need_local:
        bodies[0].append("type Local int\n")
    if need_lower_local:
        bodies[0].append("type local int\n")
    if need_ctx_alias:
        bodies[0].append("type Ctx = context.Context\n")
    others = [g["ty"] for f in pkg["funcs"] for g in f["params"] if not isinstance(g["ty"], str)]
    if any(t["other"] == "Duration" and not t.get("dot") for t in others):
        bodies[0].append("type Duration uint8\n")
    if any(t["other"] == "Context" for t in others):
        bodies[0].append("type Context struct{}\n")
    dot_files = {f["file"] for f in pkg["funcs"] for g in f["params"] if not isinstance(g["ty"], str) and g["ty"].get("dot")}
    done_groups = set()
    for t in pkg["types"]:
        under = type_under(t)
        tp = "[T any]" if t.get("tparams") else ""
        if t["group"] is None:
            bodies[t["file"]].append("type %s%s %s\n" % (t["name"], tp, under))
        elif t["group"] not in done_groups:
            done_groups.add(t["group"])
            members = [x for x in pkg["types"] if x["group"] == t["group"]]
            bodies[t["file"]].append("type (\n" + "".join(
                "\t%s%s %s\n" % (x["name"], "[T any]" if x.get("tparams") else "", type_under(x))
                for x in members) + ")\n")
    for v in pkg["vars"]:
        lines = []
        for s in v["specs"]:
            ty = (" " + s["typed"]) if s.get("typed") else ""
            rhs = (" = " + ", ".join(render_value(x) for x in s["values"])) if s["values"] else ""
            lines.append(", ".join(s["names"]) + ty + rhs)
        doc = ("// " + v["doc"] + "\n") if v.get("doc") else ""
        if v["paren"]:
            bodies[v["file"]].append(doc + "var (\n" + "".join("\t" + l + "\n" for l in lines) + ")\n")
        else:
            bodies[v["file"]].append(doc + "var " + lines[0] + "\n")
    for h in pkg["helpers"]:
        n = h["name"]
        if h["kind"] == "raw" or h.get("text"):
            bodies[h["file"]].append(h["text"])
            continue
        text = {"func": "func %s() int { return 1 }\n", "var": "var %s = 3\n", "const": "const %s = 1\n", "type": "type %s struct{}\n"}[h["kind"]] % n
        if h.get("bare"):       # the declaration itself must not use a predeclared identifier
            text = {"func": "func %s() {}\n", "var": "var %s = struct{}{}\n", "const": "const %s = \"c\"\n", "type": "type %s struct{}\n"}[h["kind"]] % n
        bodies[h["file"]].append(text)
    for f in pkg["funcs"]:
        if f["recv"] and any(t.get("tparams") for t in pkg["types"] if t["name"] == f["recv"][0]):
            f = dict(f, recv_generic=True)
        bodies[f["file"]].append(render_func(f))
    files = {}
    for i in range(nfiles):
        text = "\n".join(bodies[i])
        imps = []
        if "context." in text:
            imps.append('"context"')
        if "time." in text:
            imps.append('"time"')
        if "probe." in text:
            imps.append('"example.test/%s/probe"' % pname)
        if "alt." in text:
            imps.append('"example.test/%s/alt"' % pname)
        if "conf." in text:
            imps.append('"example.test/%s/conf"' % pname)
        if i in dot_files:
            imps.insert(0, '. "time"')
        if "mg." in text:
            imps.append('"example.test/%s/mg"' % pname if i in pkg.get("othermg_files", []) else '"github.com/magefile/mage/mg"')
        if "mage." in text:
            imps.append('mage "github.com/magefile/mage/mg"')
        if i in pkg.get("dotmg_files", []):
            imps.append('. "github.com/magefile/mage/mg"')
        head = "//go:build mage\n\n"
        if i == 0:
            head += render_comment(pkg["pkgdoc"])
        head += "package main\n\n"
        if i == 0:
            for imp in pkg.get("imports", []):
                imps.append('// mage:import%s\n\t_ "example.test/%s/%s"' % ((" " + imp["alias"]) if imp["alias"] else "", pname, imp["path"]))
        if len(imps) == 1 and "mage:import" not in imps[0]:
            head += "import %s\n\n" % imps[0]
        elif imps:
            head += "import (\n" + "".join("\t%s\n" % x for x in imps) + ")\n\n"
        files["mf_%d.go" % i] = head + text
    if any(t["kind"] == "fake" for t in pkg["types"]):
        files["alt/alt.go"] = "// Package alt has a type called Namespace that is not mg.Namespace.\npackage alt\n\ntype Namespace struct{}\n"
    for imp in pkg.get("imports", []):
        text = "\n".join(render_func(f) for f in imp["funcs"])
        imps = [x for x in (('"context"' if "context." in text else None), ('"time"' if "time." in text else None),
                            '"example.test/%s/probe"' % pname) if x]
        files["%s/%s.go" % (imp["path"], imp["name"])] = "// Package %s is mage:import'ed by the magefile.\npackage %s\n\nimport (\n%s)\n\n%s" % (
            imp["name"], imp["name"], "".join("\t%s\n" % x for x in imps), text)
    if pkg.get("othermg_files"):
        files["mg/mg.go"] = "// Package mg is NOT github.com/magefile/mage/mg.\npackage mg\n\ntype Namespace struct{}\n"
    for name, text in pkg.get("extra_files", {}).items():
        files[name] = text
    if any("conf." in t for t in files.values()):
        files["conf/conf.go"] = ("// Package conf has types named like the ones mage supports.\npackage conf\n\n"
                                 "type Duration int64\n\ntype Month int\n\ntype Context interface{}\n")
    return files


# ---------------------------------------------------------------- the oracle's reading of the sentence
def flat_param_types(f):
    out = []
    for g in f["params"]:
        out += [g["ty"] if isinstance(g["ty"], str) else "other"] * max(1, len(g["names"]))
    return out


def flat_param_names(f):
    out = []
    for g in f["params"]:
        out += list(g["names"]) if g["names"] else [None]
    return out


def oracle_would_be_valid(pkg, f):
    """an undecided declaration (oracle_ambiguous) that is a target IF its receiver counts as a namespace"""
    if not (f["recv"] and oracle_ambiguous(pkg, f)):
        return False
    ts = [t for t in pkg["types"] if t["name"] == f["recv"][0]]
    if not ts or not exported(ts[0]["name"]) or ts[0].get("tparams"):
        return False
    return oracle_valid(dict(pkg, types=[{"name": ts[0]["name"], "kind": "ns", "qual": "mg"}]), f)


def oracle_valid(pkg, f):
    """exported package-level function, or exported method of an (exported) type declared as
    mg.Namespace that has no type parameters; parameters: optional leading context.Context then only string/int/bool/
    time.Duration; result nothing or a single error; not generic"""
    if not exported(f["name"]) or f["tparams"]:
        return False
    if f["recv"]:
        ts = [t for t in pkg["types"] if t["name"] == f["recv"][0]]
        if not ts or not real_namespace(ts[0]) or not exported(ts[0]["name"]) or ts[0].get("tparams"):
            return False        # the generated program could not name a generic type without instantiating it
    ps = flat_param_types(f)
    if ps and ps[0] == "ctx":
        ps = ps[1:]
    if any(p not in SUPPORTED for p in ps):
        return False
    rs = [g["kind"] for g in f["res"] for _ in range(max(1, g["names"]))]
    return rs == [] or rs == ["error"]


def oracle_ambiguous(pkg, f):
    """a parameter written with the bare name of a dot-imported time type: semantically time.Duration,
    textually not - the sentence does not decide whether it is a target (it must not break the build)"""
    if f["recv"]:
        # the receiver type is mg.Namespace by Go's type identity (renamed / dot import, alias of a namespace type) or
        # only by its spelling (another package called mg): the sentence does not decide; the code compares the text
        ts = [t for t in pkg["types"] if t["name"] == f["recv"][0]]
        if ts and ((ts[0]["kind"] == "ns" and ts[0].get("qual") in ("mage", ".", "othermg")) or ts[0]["kind"] == "alias-of"):
            return True
    return any((not isinstance(g["ty"], str)) and g["ty"].get("dot") and g["ty"]["other"] == "Duration" for g in f["params"])


def oracle_key(f):
    return f.get("key_prefix", "") + ((f["recv"][0] + ":") if f["recv"] else "") + f["name"]


def oracle_funcs(pkg):
    """the declarations the oracle judges: the package's own and those of its mage:import'ed packages"""
    return pkg["funcs"] + [f for imp in pkg.get("imports", []) for f in imp["funcs"]]


def resolve_ref(pkg, r):
    for f in pkg["funcs"]:
        if r[0] == "ident" and not f["recv"] and f["name"] == r[1]:
            return f
        if r[0] == "sel" and f["recv"] and f["recv"][0] == r[1] and f["name"] == r[2]:
            return f
    return None


def oracle_default(pkg):
    """the function the Default variable is initialised with (Go semantics: value i of the spec
    belongs to name i), if it is a valid target"""
    for v in pkg["vars"]:
        for s in v["specs"]:
            if "Default" in s["names"]:
                i = s["names"].index("Default")
                if i < len(s["values"]) and "ref" in s["values"][i]:
                    f = resolve_ref(pkg, s["values"][i]["ref"])
                    if f is not None and oracle_valid(pkg, f):
                        return f
                return None
    return None


def default_undecided(pkg):
    """Default is initialised with a function written as another expression ((Build), step(Build)): the same
    value by Go's semantics, not a name the code resolves - the mark is left undecided"""
    return any("Default" in sp["names"] and sp["names"].index("Default") < len(sp["values"]) and sp["values"][sp["names"].index("Default")].get("wrap")
               for v in pkg["vars"] for sp in v["specs"])


def package_level_in_godoc(dv, name):
    """does go/doc (harness/docview, mode 0) keep the variable among the package's Vars?  A variable declared with
    a VISIBLE named type of the package is filed under that type instead - the reference for 'the declared default'"""
    return any(name in v["names"] for v in dv["vars"])


def oracle_aliases(pkg, f):
    out = []
    for v in pkg["vars"]:
        for s in v["specs"]:
            if "Aliases" in s["names"]:
                i = s["names"].index("Aliases")
                if i < len(s["values"]) and "map" in s["values"][i]:
                    for k, r in s["values"][i]["map"]:
                        if resolve_ref(pkg, r) is f:
                            out.append(k)
    return sorted(out)


def words_for(rng, f):
    """(command-line words, expected CALL arguments as (gotype, printed)) for one run of target f"""
    words, expect = [], []
    names, types = flat_param_names(f), flat_param_types(f)
    for n, t in zip(names, types):
        if t == "ctx":
            continue
        w, shown = rng.choice(WORDS[t])
        words.append(w)
        if n is not None and n != "_":
            expect.append((GO_PRINTED[t], shown))
    return words, expect


# ---------------------------------------------------------------- Coq printing
def coq_pty(t):
    if isinstance(t, str):
        return {"string": "TString", "int": "TInt", "bool": "TBool", "dur": "TDur", "ctx": "TCtx"}[t]
    return "(TOther %s)" % coq_str(t["other"])


def coq_ref(r):
    if r[0] == "ident":
        return "(FIdent %s)" % coq_str(r[1])
    if r[0] == "sel":
        return "(FSel %s %s)" % (coq_str(r[1]), coq_str(r[2]))
    return "FOther"


def coq_value(v):
    if "ref" in v and v.get("wrap"):
        return "(VRef FOther)"
    if "ref" in v:
        return "(VRef %s)" % coq_ref(v["ref"])
    if "map" in v:
        return "(VMap %s)" % coq_list(["(%s, %s)" % (coq_str(k), coq_ref(r)) for k, r in v["map"]])
    return "(VRef FOther)"


def coq_pkg(pkg, docs, pkgdoc, hidden_vars=()):
    """docs: {def-id: (doc, syn)} as the real go/doc reports them"""
    ds = []
    for f in pkg["funcs"]:
        doc, syn = docs.get((f["recv"][0] + "." if f["recv"] else "") + f["name"], ("", ""))
        recv = "None" if not f["recv"] else "(Some (%s, %s))" % (coq_str(f["recv"][0]), coq_bool(f["recv"][1]))
        ps = coq_list(["{| pnames := %s; pty_ := %s |}" % (coq_list([coq_str(n) for n in g["names"]]), coq_pty(g["ty"])) for g in f["params"]])
        rs = coq_list(["{| rnames := %d; rkind_ := %s |}" % (g["names"], {"error": "RKError", "local": "RKLocal", "other": "RKOther"}[g["kind"]]) for g in f["res"]])
        ds.append("{| fname := %s; recv := %s; tparams := %s; params := %s; res := %s; fdoc := %s; fsyn := %s |}" % (
            coq_str(f["name"]), recv, coq_bool(f["tparams"]), ps, rs, coq_str(doc), coq_str(syn)))
    ts = ["{| tname := %s; is_namespace := %s; tgeneric := %s |}" % (coq_str(t["name"]), coq_bool(textual_namespace(t)), coq_bool(bool(t.get("tparams"))))
          for t in all_types(pkg)]
    vs = []
    for v in all_vars(pkg):
        if any(n in hidden_vars for sp in v["specs"] for n in sp["names"]):
            continue            # go/doc files this declaration under a type (fed from the real go/doc)
        vs.append(coq_list(["{| vnames := %s; vtyped := %s; vvalues := %s |}" % (
            coq_list([coq_str(n) for n in s["names"]]), coq_bool(bool(s.get("typed"))), coq_list([coq_value(x) for x in s["values"]])) for s in v["specs"]]))
    return "{| decls := %s; types := %s; vars := %s; pkgdoc := %s |}" % (coq_list(ds), coq_list(ts), coq_list(vs), coq_str(pkgdoc))


def all_types(pkg):
    """every type declaration of the rendered package (the helper types included)"""
    ts = list(pkg["types"])
    text_other = [g["ty"]["other"] for f in pkg["funcs"] for g in f["params"] if not isinstance(g["ty"], str)]
    res_spell = [g["spell"] for f in pkg["funcs"] for g in f["res"]]
    if "Local" in text_other or any("Local" in s for s in res_spell):
        ts.append({"name": "Local", "kind": "int"})
    if any("local" in s for s in res_spell):
        ts.append({"name": "local", "kind": "int"})
    if "Ctx" in text_other:
        ts.append({"name": "Ctx", "kind": "alias"})
    tys = [g["ty"] for f in pkg["funcs"] for g in f["params"] if not isinstance(g["ty"], str)]
    if any(t["other"] == "Duration" and not t.get("dot") for t in tys):
        ts.append({"name": "Duration", "kind": "int"})
    if any(t["other"] == "Context" for t in tys):
        ts.append({"name": "Context", "kind": "struct"})
    ts += [{"name": h["name"], "kind": "struct"} for h in pkg["helpers"] if h["kind"] == "type"]
    return ts


def all_vars(pkg):
    """every var declaration of the rendered package (helper vars included; constants are not Vars)"""
    vs = list(pkg["vars"])
    vs += [{"specs": [{"names": [h["name"]], "values": [{"lit": "3"}]}]} for h in pkg["helpers"] if h["kind"] == "var"]
    return vs
