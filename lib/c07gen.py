"""Generator of the C07 collision matrix: abstract magefile packages (local targets, namespace
methods, mage:import'ed packages under aliases, Aliases entries) as JSON-able dicts, their
rendering as a Go project, and the runnable names of every definition.

Nothing here decides what mage should do with a package: builders only place names.  Every
package rendered is a valid Go package (identifiers that are exactly equal are never declared
twice in one scope; Go accepts names that differ in case only).

spec = {name, kind, collide, locals: [{recv,name,id}], imports: [{alias, tag, pkg, file, tgts: [{recv,name,id}]}],
        aliases: [{key, ref}], words: [..]}
imports are import SPECS in source order (file 0 = magefile.go, file 1 = magefile2.go); several specs may
name the same package (same pkg, same tgts): one package under several aliases, as root + alias, twice."""

WORDS = ["Build", "Test", "Deploy", "Clean", "Say", "Run", "Gen", "Lint", "Install", "Docs", "Fmt", "Vet",
         "Pack", "Ship", "Html", "Check", "Bench", "Push", "Pull", "Tidy", "Wipe", "Scan", "Lock", "Sign"]
NSWORDS = ["Ns", "Docker", "Db", "Kube", "Ci"]
PKGNAMES = ["liba", "libb", "zlib", "alib", "mlib", "tools", "util"]
IALIASES = ["lib", "tools", "ext", "sub", "q"]
RESERVED = {"Aliases", "Default", "Main"}


# ---------------------------------------------------------------- spellings
def rcase(rng, w, exported=True):
    s = "".join(c.upper() if rng.random() < 0.5 else c.lower() for c in w)
    r = rng.random()
    if r < 0.25:
        s = w
    elif r < 0.4:
        s = w.upper()
    elif r < 0.5:
        s = w.lower()
    if exported:
        s = s[0].upper() + s[1:]
    return s


def variant(rng, w, exported=True):
    """a spelling equal to w ignoring case, different from it letter for letter (w has >= 2 letters)"""
    for _ in range(50):
        s = rcase(rng, w, exported)
        if s != w:
            return s
    s = w[0] + w[1:].swapcase()
    return s


def near(rng, w):
    """a name that is NOT equal to w ignoring case, but close"""
    r = rng.random()
    if r < 0.3:
        return w + rng.choice("sxe")
    if r < 0.5 and len(w) > 2:
        return w[:-1]
    if r < 0.7:
        return w[0] + "_" + w[1:]
    if r < 0.85:
        return w + "2"
    return w[0] + w


# ---------------------------------------------------------------- builder
class Proj:
    def __init__(self, rng, name, kind, collide):
        self.rng = rng
        self.spec = {"name": name, "kind": kind, "collide": collide, "locals": [], "imports": [], "aliases": [], "words": []}
        self.n = 0
        self.words = rng.sample(WORDS, len(WORDS))
        self.nswords = rng.sample(NSWORDS, len(NSWORDS))
        self.pkgnames = rng.sample(PKGNAMES, len(PKGNAMES))
        self.ialiases = rng.sample(IALIASES, len(IALIASES))

    def word(self):
        self.n += 1
        return self.words.pop() if self.words else "Word%d" % self.n

    def nsword(self):
        self.n += 1
        return self.nswords.pop() if self.nswords else "Grp%d" % self.n

    def pkgname(self):
        self.n += 1
        return self.pkgnames.pop() if self.pkgnames else "pkg%d" % self.n

    def ial(self):
        self.n += 1
        return self.ialiases.pop() if self.ialiases else "al%d" % self.n

    def _legal(self, tgts, recv, name):
        if not name or not name[0].isupper():
            return False
        if recv == "":
            if name in RESERVED:
                return False
            return all(not (t["recv"] == "" and t["name"] == name) and t["recv"] != name for t in tgts)
        if recv in RESERVED:
            return False
        return all(not (t["recv"] == "" and t["name"] == recv) and not (t["recv"] == recv and t["name"] == name) for t in tgts)

    def _add(self, tgts, recv, name):
        if not self._legal(tgts, recv, name):
            return None
        self.n += 1
        t = {"recv": recv, "name": name, "id": "D%d" % self.n}
        tgts.append(t)
        return t["id"]

    def local(self, recv, name):
        return self._add(self.spec["locals"], recv, name)

    def imp(self, alias, tag=None, again=None, file=None):
        """alias: as mage extracts it (lower case, "" = bare tag); tag: as written in the comment;
        again: an earlier import spec whose package is imported once more; file: 0 or 1"""
        if file is None:
            file = 1 if self.rng.random() < 0.15 else 0
        i = {"alias": alias, "tag": alias if tag is None else tag, "pkg": again["pkg"] if again else self.pkgname(),
             "file": file, "tgts": again["tgts"] if again else []}
        self.spec["imports"].append(i)
        return i

    def finish(self):
        self.spec["imports"].sort(key=lambda i: i["file"])      # list order = source order (stable)

    def itgt(self, i, recv, name):
        return self._add(i["tgts"], recv, name)

    def alias(self, key, ref):
        if ref is None or key == "" or any(a["key"] == key for a in self.spec["aliases"]):
            return False
        self.spec["aliases"].append({"key": key, "ref": ref})
        return True

    def some_def(self):
        ids = sorted(set([t["id"] for t in self.spec["locals"]] + [t["id"] for i in self.spec["imports"] for t in i["tgts"]]),
                     key=lambda x: int(x[1:]))
        return self.rng.choice(ids) if ids else None

    def ialias(self):
        a = self.ial()
        return a, (a if self.rng.random() < 0.8 else rcase(self.rng, a, exported=False))


def ipath(spec, i):
    return "example.test/%s/imp/%s" % (spec["name"], i["pkg"])


def all_defs(spec):
    """id -> dict(path, recv, name, pkg): the DEFINITIONS (a package imported several times defines its functions once)"""
    res = {}
    for t in spec["locals"]:
        res[t["id"]] = {"path": "", "recv": t["recv"], "name": t["name"], "pkg": "<current>"}
    for i in spec["imports"]:
        for t in i["tgts"]:
            res[t["id"]] = {"path": ipath(spec, i), "recv": t["recv"], "name": t["name"], "pkg": ipath(spec, i)}
    return res


def import_specs(spec):
    """the imports of the package as documented: an aliased import is the pair (package, alias) - written twice it
    is still one import; bare-tag imports are listed as written"""
    seen, out = set(), []
    for i in spec["imports"]:
        if i["alias"]:
            if (i["pkg"], i["alias"]) in seen:
                continue
            seen.add((i["pkg"], i["alias"]))
        out.append(i)
    return out


def exposures(spec):
    """[(definition id, import alias under which it is exposed)]: every way a definition can be named by a target name"""
    res = [(t["id"], "") for t in spec["locals"]]
    for i in import_specs(spec):
        res += [(t["id"], i["alias"]) for t in i["tgts"]]
    return res


def alias_of_ref(spec, ref):
    """which of a package's imports an Aliases value like tools.Build denotes: parse.getFunction takes the first
    import with that package name, aliased imports (sorted by path, alias) before bare ones (input of the model)"""
    for i in spec["imports"]:
        if any(t["id"] == ref for t in i["tgts"]):
            same = [j for j in spec["imports"] if j["pkg"] == i["pkg"]]
            named = sorted(j["alias"] for j in same if j["alias"])
            return named[0] if named else ""
    return ""


def runnable(d, alias=""):
    """the name typed on the command line: the non-empty ones of import alias, namespace, function joined by ':'"""
    return ":".join(x for x in (alias, d["recv"], d["name"]) if x)


def ident(d):
    """how a definition is identified in messages and in the Coq cases: <path or <current>>.[Receiver.]Name"""
    return (d["path"] or "<current>") + "." + ((d["recv"] + ".") if d["recv"] else "") + d["name"]


# ---------------------------------------------------------------- the kinds of collision
def k_fn_case(P, c):
    w = rcase(P.rng, P.word())
    P.local("", w)
    P.local("", variant(P.rng, w) if c else near(P.rng, w))


def k_method_case(P, c):
    ns, w = P.nsword(), rcase(P.rng, P.word())
    P.local(ns, w)
    P.local(ns, variant(P.rng, w) if c else near(P.rng, w))


def k_namespace_case(P, c):
    ns, w = P.nsword(), P.word()
    P.local(ns, rcase(P.rng, w))
    P.local(variant(P.rng, ns) if c else near(P.rng, ns), rcase(P.rng, w))


def k_fn_vs_method(P, c):
    """function against namespace method spelled alike: NsX vs Ns.X never collide ("nsx" / "ns:x");
    an imported function X under the import alias ns does collide with the local Ns.X"""
    ns, w = P.nsword(), P.word()
    P.local(ns, rcase(P.rng, w))
    if c:
        i = P.imp(ns.lower(), ns.lower() if P.rng.random() < 0.7 else rcase(P.rng, ns, False))
        P.itgt(i, "", rcase(P.rng, w))
    elif P.rng.random() < 0.5:
        P.local("", ns + rcase(P.rng, w))
    else:
        i = P.imp(near(P.rng, ns).lower())
        P.itgt(i, "", rcase(P.rng, w))
        P.local("", ns + w)


def k_two_imports_one_alias(P, c):
    a, tag = P.ialias()
    i1, i2 = P.imp(a, tag), P.imp(a)
    w = P.word()
    ns = P.nsword() if P.rng.random() < 0.3 else ""
    P.itgt(i1, ns, rcase(P.rng, w))
    P.itgt(i2, ns, rcase(P.rng, w) if c else (near(P.rng, w) if P.rng.random() < 0.5 else P.word()))
    if P.rng.random() < 0.5:
        P.itgt(i1, "", P.word())
    if P.rng.random() < 0.5:
        P.itgt(i2, "", P.word())


def k_same_name_two_aliases(P, c):
    """the same function name in two packages: under different aliases no collision, under one alias a collision"""
    a, _ = P.ialias()
    b, _ = (a, None) if c else P.ialias()
    w = P.word()
    P.itgt(P.imp(a), "", w)
    P.itgt(P.imp(b), "", w if P.rng.random() < 0.5 else rcase(P.rng, w))


def k_root_vs_local(P, c):
    w = P.word()
    i = P.imp("")
    P.itgt(i, "", rcase(P.rng, w))
    P.local("", rcase(P.rng, w) if c else near(P.rng, w))
    if P.rng.random() < 0.4:
        P.itgt(i, P.nsword(), P.word())


def k_two_roots(P, c):
    w = P.word()
    P.itgt(P.imp(""), "", rcase(P.rng, w))
    P.itgt(P.imp(""), "", rcase(P.rng, w) if c else near(P.rng, w))


def k_alias_vs_local(P, c):
    w = P.word()
    P.local("", rcase(P.rng, w))
    other = P.local("", P.word())
    P.alias(rcase(P.rng, w, False) if c else near(P.rng, rcase(P.rng, w, False)), other)


def k_alias_vs_imported(P, c):
    a, tag = P.ialias()
    i = P.imp(a, tag)
    w = P.word()
    ns = P.nsword() if P.rng.random() < 0.3 else ""
    P.itgt(i, ns, rcase(P.rng, w))
    other = P.local("", P.word())
    full = ":".join(x for x in (a, ns, w) if x)
    if c:
        key = rcase(P.rng, full, False)
    else:
        key = P.rng.choice([a + w, ":".join(x for x in (a, ns, near(P.rng, w)) if x), ":".join(x for x in (a + "x", ns, w) if x), w.lower() if w.lower() != full.lower() else w + "x"])
    P.alias(key, other)


def k_alias_vs_alias(P, c):
    d1, d2 = P.local("", P.word()), P.local("", P.word())
    k = rcase(P.rng, P.rng.choice(["st", "bld", "xy", "go2", "a:b"]), False)
    P.alias(k, d1)
    P.alias(variant(P.rng, k, False) if c else near(P.rng, k), d2)


def k_alias_own_target(P, c):
    w = rcase(P.rng, P.word())
    d = P.local("", w)
    P.alias(rcase(P.rng, w, False) if c else P.rng.choice([w[0].lower(), near(P.rng, w).lower()]), d)


def k_import_internal_case(P, c):
    a = P.rng.choice(["", P.ial()])
    i = P.imp(a)
    w = rcase(P.rng, P.word())
    ns = P.nsword() if P.rng.random() < 0.3 else ""
    P.itgt(i, ns, w)
    P.itgt(i, ns, variant(P.rng, w) if c else near(P.rng, w))
    P.local("", P.word())


def k_alias_vs_method(P, c):
    ns, w = P.nsword(), P.word()
    P.local(ns, rcase(P.rng, w))
    other = P.local("", P.word())
    P.alias(rcase(P.rng, ns + ":" + w, False) if c else P.rng.choice([(ns + w).lower(), ns.lower() + ":" + near(P.rng, w).lower(), ns.lower() + "::" + w.lower()]), other)


def k_import_alias_colon(P, c):
    """an import alias containing a colon against alias + namespace of another import"""
    ns, w = P.nsword(), P.word()
    a = P.ial()
    P.itgt(P.imp(a + ":" + ns.lower()), "", rcase(P.rng, w))
    P.itgt(P.imp(a), ns if c else near(P.rng, ns), rcase(P.rng, w))


def _pkg_with_funcs(P, alias, tag=None, file=None):
    i = P.imp(alias, tag, file=file)
    w = P.word()
    P.itgt(i, "", rcase(P.rng, w))
    if P.rng.random() < 0.5:
        P.itgt(i, P.nsword(), rcase(P.rng, P.word()))
    if P.rng.random() < 0.5:
        P.itgt(i, "", rcase(P.rng, P.word()))
    return i, w


def _decorate(P, i):
    """local targets and Aliases entries declared on a repeatedly imported package"""
    if P.rng.random() < 0.7:
        P.local("", rcase(P.rng, P.word()))
    if P.rng.random() < 0.6:
        P.alias(rcase(P.rng, P.rng.choice(["pk", "tb", "z:y"]), False), P.rng.choice(i["tgts"])["id"])
    if P.rng.random() < 0.3:
        P.alias(rcase(P.rng, "loc", False), P.local("", rcase(P.rng, P.word())))


def k_pkg_two_aliases(P, c):
    """one package under two aliases (one block or two files): alias1:name and alias2:name, no collision;
    collision next to it: an Aliases key spelled like alias2:name"""
    (a, ta), (b, _) = P.ialias(), P.ialias()
    f1 = P.rng.choice([0, 1])
    i, w = _pkg_with_funcs(P, a, ta, file=f1)
    P.imp(b, again=i, file=P.rng.choice([0, 1]))
    _decorate(P, i)
    if c:
        P.alias(rcase(P.rng, b + ":" + w, False), P.local("", rcase(P.rng, P.word())))


def k_pkg_root_and_alias(P, c):
    """a package as bare-tag import and under an alias: name and alias:name; collision: a local target spelled like name"""
    a, ta = P.ialias()
    i, w = _pkg_with_funcs(P, "" if P.rng.random() < 0.5 else a, file=P.rng.choice([0, 1]))
    P.imp(a if i["alias"] == "" else "", again=i, file=P.rng.choice([0, 1]))
    _decorate(P, i)
    P.local("", rcase(P.rng, w) if c else near(P.rng, w))


def k_pkg_three_aliases(P, c):
    """three aliases for one package; collision: another package under one of them sharing a function name"""
    als = [P.ialias()[0] for _ in range(3)]
    i, w = _pkg_with_funcs(P, als[0], file=P.rng.choice([0, 1]))
    for a in als[1:]:
        P.imp(a, again=i, file=P.rng.choice([0, 1]))
    _decorate(P, i)
    j = P.imp(P.rng.choice(als) if c else P.ial())
    P.itgt(j, "", rcase(P.rng, w))


def k_pkg_same_pair_twice(P, c):
    """the same (package, alias) pair written twice is one import; collision: a different package under that alias
    sharing a function name"""
    a, ta = P.ialias()
    i, w = _pkg_with_funcs(P, a, ta, file=P.rng.choice([0, 1]))
    P.imp(a, again=i, file=P.rng.choice([0, 1]))
    if P.rng.random() < 0.4:
        P.imp(P.ial(), again=i)
    _decorate(P, i)
    if c:
        P.itgt(P.imp(a), "", rcase(P.rng, w))


def k_pkg_root_twice(P, c):
    """the same package as a bare-tag import twice: one definition reachable by one name, written twice - the
    property sentence does not decide (the oracle accepts both outcomes), the model must predict what happens"""
    i, w = _pkg_with_funcs(P, "", file=0)
    P.imp("", again=i, file=P.rng.choice([0, 1]))
    if P.rng.random() < 0.5:
        P.imp(P.ial(), again=i)
    P.local("", rcase(P.rng, P.word()))


KINDS = [("fn_case", k_fn_case), ("method_case", k_method_case), ("namespace_case", k_namespace_case),
         ("fn_vs_method", k_fn_vs_method), ("two_imports_one_alias", k_two_imports_one_alias),
         ("same_name_two_aliases", k_same_name_two_aliases), ("root_vs_local", k_root_vs_local), ("two_roots", k_two_roots),
         ("alias_vs_local", k_alias_vs_local), ("alias_vs_imported", k_alias_vs_imported), ("alias_vs_alias", k_alias_vs_alias),
         ("alias_own_target", k_alias_own_target), ("import_internal_case", k_import_internal_case),
         ("alias_vs_method", k_alias_vs_method), ("import_alias_colon", k_import_alias_colon),
         ("pkg_two_aliases", k_pkg_two_aliases), ("pkg_root_and_alias", k_pkg_root_and_alias),
         ("pkg_three_aliases", k_pkg_three_aliases), ("pkg_same_pair_twice", k_pkg_same_pair_twice)]


def fillers(P):
    """unrelated definitions around the pair under test"""
    rng = P.rng
    for _ in range(rng.choice([0, 0, 1, 2, 3])):
        P.local("", rcase(rng, P.word()))
    if rng.random() < 0.3:
        ns = P.nsword()
        for _ in range(rng.choice([1, 2])):
            P.local(ns, rcase(rng, P.word()))
    if rng.random() < 0.3:
        a, tag = P.ialias()
        i = P.imp(a if rng.random() < 0.7 else "", tag)
        i["tag"] = i["alias"] and i["tag"]
        for _ in range(rng.choice([1, 2])):
            P.itgt(i, "" if rng.random() < 0.7 else "Grp", rcase(rng, P.word()))
    for k in rng.sample(["zz", "f1", "al9", "k:l", "w8"], rng.choice([0, 0, 1, 2])):
        P.alias(rcase(rng, k, False), P.some_def())


def soup(P):
    """few names, many places: accidental collisions of every kind"""
    rng = P.rng
    names = rng.sample(["Build", "BUILD", "BuilD", "Test", "TEST", "X"], 3)
    recvs = ["", "", "Ns", rng.choice(["NS", "Nt"])]
    for _ in range(rng.choice([1, 2, 3, 4])):
        P.local(rng.choice(recvs), rng.choice(names))
    for _ in range(rng.choice([0, 1, 2, 2])):
        if P.spec["imports"] and rng.random() < 0.3:
            P.imp(rng.choice(["", "ns", "lib", "dev"]), again=rng.choice(P.spec["imports"]))
            continue
        i = P.imp(rng.choice(["", "ns", "lib", "lib"]))
        for _ in range(rng.choice([1, 2, 3])):
            P.itgt(i, rng.choice(["", "", "Ns"]), rng.choice(names))
    for _ in range(rng.choice([0, 1, 2, 3])):
        P.alias(rng.choice(["build", "BUILD", "Build", "ns:build", "Ns:Test", "lib:build", "lib:ns:x", "test", "x", "b", "T"]), P.some_def())


def choose_words(P):
    rng = P.rng
    spec = P.spec
    ws = []
    defs = all_defs(spec)
    for i, a in exposures(spec):
        ws.append(rcase(rng, runnable(defs[i], a), False))
    for a in spec["aliases"]:
        ws.append(rcase(rng, a["key"], False))
        if rng.random() < 0.3:
            ws.append(a["key"])
    rng.shuffle(ws)
    spec["words"] = ws


def generate(rng, reps, soups):
    specs = []
    def name():
        return "c07_%04d" % len(specs)
    for rep in range(reps):
        for kind, fn in KINDS:
            for c in (True, False):
                P = Proj(rng, name(), kind, c)
                if rng.random() < 0.5:
                    fillers(P)
                    fn(P, c)
                else:
                    fn(P, c)
                    fillers(P)
                if rng.random() < 0.3:
                    rng.shuffle(P.spec["locals"])
                P.finish()
                choose_words(P)
                specs.append(P.spec)
        # two collisions of different kinds in one package (which one is reported first is not compared)
        for _ in range(3):
            (k1, f1), (k2, f2) = rng.sample(KINDS, 2)
            c2 = rng.random() < 0.7
            P = Proj(rng, name(), "multi:%s+%s" % (k1, k2), True)
            f1(P, True)
            f2(P, c2)
            P.finish()
            choose_words(P)
            specs.append(P.spec)
        P = Proj(rng, name(), "pkg_root_twice", None)
        k_pkg_root_twice(P, None)
        P.finish()
        choose_words(P)
        specs.append(P.spec)
    for _ in range(soups):
        P = Proj(rng, name(), "soup", None)
        soup(P)
        P.finish()
        choose_words(P)
        specs.append(P.spec)
    return specs


# ---------------------------------------------------------------- rendering
def _body(t):
    return 'error { return probe.Call("%s") }' % t["id"]


def _decls(tgts):
    out = []
    for ns in sorted(set(t["recv"] for t in tgts if t["recv"])):
        out.append("type %s mg.Namespace\n" % ns)
    for t in tgts:
        if t["recv"]:
            out.append("func (%s) %s() %s\n" % (t["recv"], t["name"], _body(t)))
        else:
            out.append("func %s() %s\n" % (t["name"], _body(t)))
    return "\n".join(out)


def _goref(spec, ref):
    for t in spec["locals"]:
        if t["id"] == ref:
            return (t["recv"] + "." if t["recv"] else "") + t["name"], None
    for i in spec["imports"]:
        for t in i["tgts"]:
            if t["id"] == ref:
                return i["pkg"] + "." + (t["recv"] + "." if t["recv"] else "") + t["name"], i["pkg"]
    raise KeyError(ref)


def render(spec):
    files = {}
    mod = "example.test/%s" % spec["name"]
    used = set()
    entries = []
    for a in spec["aliases"]:
        ref, pkg = _goref(spec, a["ref"])
        if pkg:
            used.add(pkg)
        entries.append("\t%s: %s,\n" % (_goq(a["key"]), ref))
    for fno, fname in ((0, "magefile.go"), (1, "magefile2.go")):
        specs = [i for i in spec["imports"] if i.get("file", 0) == fno]
        if fno == 1 and not specs:
            continue
        imps = []
        if fno == 0:
            if spec["locals"]:
                imps.append('\t"%s/probe"\n' % mod)
            if any(t["recv"] for t in spec["locals"]):
                imps.append('\t"github.com/magefile/mage/mg"\n')
            # a package named by an Aliases value needs one non-blank import in this file
            for pkg in sorted(used):
                if not any(i["pkg"] == pkg for i in specs):
                    imps.append('\t"%s/imp/%s"\n' % (mod, pkg))
        named_here = set()
        for i in specs:
            imps.append("\t// mage:import%s\n" % ((" " + i["tag"]) if i["alias"] else ""))
            blank = not (fno == 0 and i["pkg"] in used and i["pkg"] not in named_here)
            if not blank:
                named_here.add(i["pkg"])
            imps.append('\t%s"%s"\n' % ("_ " if blank else "", ipath(spec, i)))
        src = "//go:build mage\n\npackage main\n\n"
        if imps:
            src += "import (\n" + "".join(imps) + ")\n\n"
        if fno == 0:
            if entries:
                src += "var Aliases = map[string]interface{}{\n" + "".join(entries) + "}\n\n"
            src += _decls(spec["locals"])
        files[fname] = src
    done = set()
    for i in spec["imports"]:
        if i["pkg"] in done:
            continue
        done.add(i["pkg"])
        s = "package %s\n\n" % i["pkg"]
        im = []
        if i["tgts"]:
            im.append('\t"%s/probe"\n' % mod)
        if any(t["recv"] for t in i["tgts"]):
            im.append('\t"github.com/magefile/mage/mg"\n')
        if im:
            s += "import (\n" + "".join(im) + ")\n\n"
        s += _decls(i["tgts"])
        files["imp/%s/%s.go" % (i["pkg"], i["pkg"])] = s
    return files


def _goq(s):
    assert all(32 <= ord(c) < 127 and c not in '"\\' for c in s), s
    return '"' + s + '"'
