"""Generator of the C07 collision matrix: abstract magefile packages (local targets, namespace
methods, mage:import'ed packages under aliases, Aliases entries) as JSON-able dicts, their
rendering as a Go project, and the runnable names of every definition.

Nothing here decides what mage should do with a package: builders only place names.  Every
package rendered is a valid Go package (identifiers that are exactly equal are never declared
twice in one scope; Go accepts names that differ in case only).

spec = {name, kind, collide, locals: [{recv,name,id}], imports: [{alias, tag, pkg, file, tgts: [{recv,name,id}]}],
        aliases: [{key, ref}], words: [..]}
Every package may also carry "decoys" (spec["decoys"] for the magefile package, import["decoys"] per imported
package): declarations that are NOT runnable names but are spelled like one - exported functions and namespace
methods with a signature mage cannot call, unexported functions, methods of non-namespace types, methods of an
unexported namespace type, functions in a _test file or in a file excluded by a build constraint.  They are
rendered, never part of the abstract package given to the model or the oracle.
An imported package may declare its own `var Aliases` / `var Default` (import["own_aliases"] = [{key, ref}],
import["own_default"] = id): mage ignores them (only the magefile's own declarations count), so they too are
rendered only; spec["nonwords"] are words that must NOT be runnable (e.g. the keys of such ignored aliases).
spec["mode"] names the way mage is invoked (plain, -debug, -v, MAGEFILE_DEBUG=1, ...): it must not matter.
A history (generate()[i] is a list of specs) is one project directory + one cache going through several states.
imports are import SPECS in source order (file 0 = magefile.go, file 1 = magefile2.go); several specs may
name the same package (same pkg, same tgts): one package under several aliases, as root + alias, twice."""

WORDS = ["Build", "Test", "Deploy", "Clean", "Say", "Run", "Gen", "Lint", "Install", "Docs", "Fmt", "Vet",
         "Pack", "Ship", "Html", "Check", "Bench", "Push", "Pull", "Tidy", "Wipe", "Scan", "Lock", "Sign"]
NSWORDS = ["Ns", "Docker", "Db", "Kube", "Ci"]
PKGNAMES = ["liba", "libb", "zlib", "alib", "mlib", "tools", "util"]
IALIASES = ["lib", "tools", "ext", "sub", "q"]
RESERVED = {"Aliases", "Default", "Main"}


# ---------------------------------------------------------------- Go's strings.ToLower
GO_LOWER = {}        # non-ASCII character -> Go's strings.ToLower of it (filled by the check from harness/docview)


def fold(s):
    """strings.ToLower(s) as Go computes it (rune by rune); ASCII by rule, other characters from GO_LOWER"""
    return "".join(c.lower() if c.isascii() else GO_LOWER[c] for c in s)


def inside_model(strings):
    """the Coq model's ToLower is ASCII: a case is inside its fragment when Go's ToLower leaves every non-ASCII character alone"""
    return all(c.isascii() or GO_LOWER[c] == c for x in strings for c in x)


def strings_of(spec):
    out = list(spec["words"]) + list(spec.get("nonwords", [])) + [a["key"] for a in spec["aliases"]]
    for t in spec["locals"]:
        out += [t["recv"], t["name"]]
    for i in spec["imports"]:
        out.append(i["alias"])
        for t in i["tgts"]:
            out += [t["recv"], t["name"]]
    return out


# pairs of letters differing in case outside ASCII (what Go's ToLower makes of them is asked from Go, not assumed):
# U/u-umlaut, E-acute, Sigma/sigma, Cyrillic De, DZ-caron digraph (upper, title, lower), dotted capital I / i, Kelvin sign / k
UNI_SAME = [("\u00dc", "\u00fc"), ("\u00c9", "\u00e9"), ("\u03a3", "\u03c3"), ("\u0414", "\u0434"), ("\u01c4", "\u01c6"),
            ("\u01c5", "\u01c6"), ("\u0130", "i"), ("\u212a", "k"), ("\u00dc", "\u00fc"), ("\u00c9", "\u00e9")]
# look-alikes that are NOT one letter in two cases: final sigma / sigma, U-umlaut / o-umlaut, E-acute / e, sharp s / ss
UNI_NEAR = [("\u03c3", "\u03c2"), ("\u00dc", "\u00f6"), ("\u00c9", "e"), ("\u0414", "\u043b"), ("\u00df", "ss"), ("\u03a3", "\u03c2")]
_FLIP = {}
for _a, _b in UNI_SAME:
    if len(_b) == 1 and not _b.isascii():
        _FLIP.setdefault(_a, _b)
        _FLIP.setdefault(_b, _a)


def wcase(rng, w):
    """a word as typed: random ASCII letter case, and the other case of some non-ASCII letters"""
    s = rcase(rng, w, False)
    return "".join(_FLIP[c] if (c in _FLIP and rng.random() < 0.5) else c for c in s)


# ---------------------------------------------------------------- spellings
def rcase(rng, w, exported=True):
    """random letter case of the ASCII letters (other characters are left alone: the model's ToLower is ASCII)"""
    s = "".join((c.upper() if rng.random() < 0.5 else c.lower()) if c.isascii() else c for c in w)
    r = rng.random()
    if r < 0.25:
        s = w
    elif r < 0.4 and w.isascii():
        s = w.upper()
    elif r < 0.5 and w.isascii():
        s = w.lower()
    if exported:
        s = s[0].upper() + s[1:]
    return s


def variant(rng, w, exported=True):
    """a spelling equal to w ignoring case, different from it letter for letter (w has >= 2 letters)"""
    for _ in range(50):
        s = rcase(rng, w, exported)
        if s != w:
            return s
    s = w[0] + w[1:].swapcase()
    return s


def near(rng, w):
    """a name that is NOT equal to w ignoring case, but close"""
    r = rng.random()
    if r < 0.3:
        return w + rng.choice("sxe")
    if r < 0.5 and len(w) > 2:
        return w[:-1]
    if r < 0.7:
        return w[0] + "_" + w[1:]
    if r < 0.85:
        return w + "2"
    return w[0] + w


# ---------------------------------------------------------------- builder
class Proj:
    def __init__(self, rng, name, kind, collide):
        self.rng = rng
        self.spec = {"name": name, "kind": kind, "collide": collide, "locals": [], "imports": [], "aliases": [], "words": []}
        self.n = 0
        self.words = rng.sample(WORDS, len(WORDS))
        self.nswords = rng.sample(NSWORDS, len(NSWORDS))
        self.pkgnames = rng.sample(PKGNAMES, len(PKGNAMES))
        self.ialiases = rng.sample(IALIASES, len(IALIASES))

    def word(self):
        self.n += 1
        return self.words.pop() if self.words else "Word%d" % self.n

    def nsword(self):
        self.n += 1
        return self.nswords.pop() if self.nswords else "Grp%d" % self.n

    def pkgname(self):
        self.n += 1
        return self.pkgnames.pop() if self.pkgnames else "pkg%d" % self.n

    def ial(self):
        self.n += 1
        return self.ialiases.pop() if self.ialiases else "al%d" % self.n

    def _legal(self, tgts, recv, name):
        if not name or not name[0].isupper():
            return False
        if recv == "":
            if name in RESERVED:
                return False
            return all(not (t["recv"] == "" and t["name"] == name) and t["recv"] != name for t in tgts)
        if recv in RESERVED:
            return False
        return all(not (t["recv"] == "" and t["name"] == recv) and not (t["recv"] == recv and t["name"] == name) for t in tgts)

    def _scope(self, tgts):
        """the targets and in-scope decoys declared next to tgts (one Go package)"""
        if tgts is self.spec["locals"]:
            dec = self.spec.setdefault("decoys", [])
        else:
            dec = next(i for i in self.spec["imports"] if i["tgts"] is tgts).setdefault("decoys", [])
        return tgts + [{"recv": x["recv"], "name": x["name"]} for x in dec if x["kind"] not in ("test_file", "tagged_out")] + \
            [{"recv": "", "name": x["recv"]} for x in dec if x["recv"]]

    def decoy(self, where, kind, recv, name):
        """where: None = the magefile package, else an import dict"""
        if where is not None:
            where = next(i for i in self.spec["imports"] if i["tgts"] is where["tgts"])
        tgts = self.spec["locals"] if where is None else where["tgts"]
        dec = self.spec.setdefault("decoys", []) if where is None else where.setdefault("decoys", [])
        if kind == "unexported" and not name[:1].islower():
            return False
        if kind in ("test_file", "tagged_out"):
            if not name or any(x["kind"] == kind and x["name"] == name for x in dec):
                return False
        else:
            scope = self._scope(tgts)
            if not name or name in RESERVED or recv in RESERVED:
                return False
            if recv == "":
                if any((t["recv"] == "" and t["name"] == name) or t["recv"] == name for t in scope):
                    return False
            elif any((t["recv"] == "" and t["name"] == recv) or (t["recv"] == recv and t["name"] == name) for t in scope):
                return False
        dec.append({"kind": kind, "recv": recv, "name": name})
        return True

    def _add(self, tgts, recv, name):
        if not self._legal(self._scope(tgts), recv, name):
            return None
        self.n += 1
        t = {"recv": recv, "name": name, "id": "D%d" % self.n}
        tgts.append(t)
        return t["id"]

    def local(self, recv, name):
        return self._add(self.spec["locals"], recv, name)

    def imp(self, alias, tag=None, again=None, file=None):
        """alias: as mage extracts it (lower case, "" = bare tag); tag: as written in the comment;
        again: an earlier import spec whose package is imported once more; file: 0 or 1"""
        if file is None:
            file = 1 if self.rng.random() < 0.15 else 0
        i = {"alias": alias, "tag": alias if tag is None else tag, "pkg": again["pkg"] if again else self.pkgname(),
             "file": file, "tgts": again["tgts"] if again else []}
        self.spec["imports"].append(i)
        return i

    def finish(self):
        self.spec["imports"].sort(key=lambda i: i["file"])      # list order = source order (stable)
        # the letter case of everything the tag line carries, and the blanks around it, per spec independently:
        # mage lower-cases the whole comment, (path, lower-cased alias) is the identity of an import
        rng = self.rng
        for i in self.spec["imports"]:
            if rng.random() < 0.4:
                i["tagline"] = "// mage:import" + ((" " + i["tag"]) if i["alias"] else "")
                continue
            ws = lambda: rng.choice([" ", " ", "", "\t", "  ", " \t "])
            sep = lambda: rng.choice([" ", " ", "\t", "   ", "\t \t"])
            word = rng.choice(["mage:import", "MAGE:IMPORT", "Mage:Import", "mage:Import", rcase(rng, "mage:import", False)])
            al = ""
            if i["alias"]:
                al = sep() + rng.choice([i["alias"], i["alias"].upper(), i["alias"].capitalize(), rcase(rng, i["alias"], False), i["tag"]])
            i["tagline"] = "//" + ws() + word + al + rng.choice(["", "", " ", "\t", "  "])

    def itgt(self, i, recv, name):
        return self._add(i["tgts"], recv, name)

    def alias(self, key, ref):
        if ref is None or key == "" or any(a["key"] == key for a in self.spec["aliases"]):
            return False
        self.spec["aliases"].append({"key": key, "ref": ref})
        return True

    def own_alias(self, i, key, ref):
        """an entry of the IMPORTED package's own `var Aliases` (ignored by mage)"""
        i = next(j for j in self.spec["imports"] if j["tgts"] is i["tgts"])
        oa = i.setdefault("own_aliases", [])
        if not key or ref is None or any(a["key"] == key for a in oa):
            return False
        oa.append({"key": key, "ref": ref})
        return True

    def some_def(self):
        ids = sorted(set([t["id"] for t in self.spec["locals"]] + [t["id"] for i in self.spec["imports"] for t in i["tgts"]]),
                     key=lambda x: int(x[1:]))
        return self.rng.choice(ids) if ids else None

    def ialias(self):
        a = self.ial()
        return a, (a if self.rng.random() < 0.8 else rcase(self.rng, a, exported=False))


def ipath(spec, i):
    return "example.test/%s/imp/%s" % (spec["name"], i["pkg"])


def all_defs(spec):
    """id -> dict(path, recv, name, pkg): the DEFINITIONS (a package imported several times defines its functions once)"""
    res = {}
    for t in spec["locals"]:
        res[t["id"]] = {"path": "", "recv": t["recv"], "name": t["name"], "pkg": "<current>"}
    for i in spec["imports"]:
        for t in i["tgts"]:
            res[t["id"]] = {"path": ipath(spec, i), "recv": t["recv"], "name": t["name"], "pkg": ipath(spec, i)}
    return res


def import_specs(spec):
    """the imports of the package as documented: an aliased import is the pair (package, alias), a bare-tag import
    is the package - written twice it is still one import"""
    seen, out = set(), []
    for i in spec["imports"]:
        if (i["pkg"], i["alias"]) in seen:
            continue
        seen.add((i["pkg"], i["alias"]))
        out.append(i)
    return out


def exposures(spec):
    """[(definition id, import alias under which it is exposed)]: every way a definition can be named by a target name"""
    res = [(t["id"], "") for t in spec["locals"]]
    for i in import_specs(spec):
        res += [(t["id"], i["alias"]) for t in i["tgts"]]
    return res


def alias_of_ref(spec, ref):
    """which of a package's imports an Aliases value like tools.Build denotes: parse.getFunction takes the first
    import with that package name, aliased imports (sorted by path, alias) before bare ones (input of the model)"""
    for i in spec["imports"]:
        if any(t["id"] == ref for t in i["tgts"]):
            same = [j for j in spec["imports"] if j["pkg"] == i["pkg"]]
            named = sorted(j["alias"] for j in same if j["alias"])
            return named[0] if named else ""
    return ""


def runnable(d, alias=""):
    """the name typed on the command line: the non-empty ones of import alias, namespace, function joined by ':'"""
    return ":".join(x for x in (alias, d["recv"], d["name"]) if x)


def ident(d):
    """how a definition is identified in messages and in the Coq cases: <path or <current>>.[Receiver.]Name"""
    return (d["path"] or "<current>") + "." + ((d["recv"] + ".") if d["recv"] else "") + d["name"]


# ---------------------------------------------------------------- the kinds of collision
def k_fn_case(P, c):
    w = rcase(P.rng, P.word())
    P.local("", w)
    P.local("", variant(P.rng, w) if c else near(P.rng, w))


def k_method_case(P, c):
    ns, w = P.nsword(), rcase(P.rng, P.word())
    P.local(ns, w)
    P.local(ns, variant(P.rng, w) if c else near(P.rng, w))


def k_namespace_case(P, c):
    ns, w = P.nsword(), P.word()
    P.local(ns, rcase(P.rng, w))
    P.local(variant(P.rng, ns) if c else near(P.rng, ns), rcase(P.rng, w))


def k_fn_vs_method(P, c):
    """function against namespace method spelled alike: NsX vs Ns.X never collide ("nsx" / "ns:x");
    an imported function X under the import alias ns does collide with the local Ns.X"""
    ns, w = P.nsword(), P.word()
    P.local(ns, rcase(P.rng, w))
    if c:
        i = P.imp(ns.lower(), ns.lower() if P.rng.random() < 0.7 else rcase(P.rng, ns, False))
        P.itgt(i, "", rcase(P.rng, w))
    elif P.rng.random() < 0.5:
        P.local("", ns + rcase(P.rng, w))
    else:
        i = P.imp(near(P.rng, ns).lower())
        P.itgt(i, "", rcase(P.rng, w))
        P.local("", ns + w)


def k_two_imports_one_alias(P, c):
    a, tag = P.ialias()
    i1, i2 = P.imp(a, tag), P.imp(a)
    w = P.word()
    ns = P.nsword() if P.rng.random() < 0.3 else ""
    P.itgt(i1, ns, rcase(P.rng, w))
    P.itgt(i2, ns, rcase(P.rng, w) if c else (near(P.rng, w) if P.rng.random() < 0.5 else P.word()))
    if P.rng.random() < 0.5:
        P.itgt(i1, "", P.word())
    if P.rng.random() < 0.5:
        P.itgt(i2, "", P.word())


def k_same_name_two_aliases(P, c):
    """the same function name in two packages: under different aliases no collision, under one alias a collision"""
    a, _ = P.ialias()
    b, _ = (a, None) if c else P.ialias()
    w = P.word()
    P.itgt(P.imp(a), "", w)
    P.itgt(P.imp(b), "", w if P.rng.random() < 0.5 else rcase(P.rng, w))


def k_root_vs_local(P, c):
    w = P.word()
    i = P.imp("")
    P.itgt(i, "", rcase(P.rng, w))
    P.local("", rcase(P.rng, w) if c else near(P.rng, w))
    if P.rng.random() < 0.4:
        P.itgt(i, P.nsword(), P.word())


def k_two_roots(P, c):
    w = P.word()
    P.itgt(P.imp(""), "", rcase(P.rng, w))
    P.itgt(P.imp(""), "", rcase(P.rng, w) if c else near(P.rng, w))


def k_alias_vs_local(P, c):
    w = P.word()
    P.local("", rcase(P.rng, w))
    other = P.local("", P.word())
    P.alias(rcase(P.rng, w, False) if c else near(P.rng, rcase(P.rng, w, False)), other)


def k_alias_vs_imported(P, c):
    a, tag = P.ialias()
    i = P.imp(a, tag)
    w = P.word()
    ns = P.nsword() if P.rng.random() < 0.3 else ""
    P.itgt(i, ns, rcase(P.rng, w))
    other = P.local("", P.word())
    full = ":".join(x for x in (a, ns, w) if x)
    if c:
        key = rcase(P.rng, full, False)
    else:
        key = P.rng.choice([a + w, ":".join(x for x in (a, ns, near(P.rng, w)) if x), ":".join(x for x in (a + "x", ns, w) if x), w.lower() if w.lower() != full.lower() else w + "x"])
    P.alias(key, other)


def k_alias_vs_alias(P, c):
    d1, d2 = P.local("", P.word()), P.local("", P.word())
    k = rcase(P.rng, P.rng.choice(["st", "bld", "xy", "go2", "a:b"]), False)
    P.alias(k, d1)
    P.alias(variant(P.rng, k, False) if c else near(P.rng, k), d2)


def k_alias_own_target(P, c):
    w = rcase(P.rng, P.word())
    d = P.local("", w)
    P.alias(rcase(P.rng, w, False) if c else P.rng.choice([w[0].lower(), near(P.rng, w).lower()]), d)


def k_import_internal_case(P, c):
    a = P.rng.choice(["", P.ial()])
    i = P.imp(a)
    w = rcase(P.rng, P.word())
    ns = P.nsword() if P.rng.random() < 0.3 else ""
    P.itgt(i, ns, w)
    P.itgt(i, ns, variant(P.rng, w) if c else near(P.rng, w))
    P.local("", P.word())


def k_alias_vs_method(P, c):
    ns, w = P.nsword(), P.word()
    P.local(ns, rcase(P.rng, w))
    other = P.local("", P.word())
    P.alias(rcase(P.rng, ns + ":" + w, False) if c else P.rng.choice([(ns + w).lower(), ns.lower() + ":" + near(P.rng, w).lower(), ns.lower() + "::" + w.lower()]), other)


def k_import_alias_colon(P, c):
    """an import alias containing a colon against alias + namespace of another import"""
    ns, w = P.nsword(), P.word()
    a = P.ial()
    P.itgt(P.imp(a + ":" + ns.lower()), "", rcase(P.rng, w))
    P.itgt(P.imp(a), ns if c else near(P.rng, ns), rcase(P.rng, w))


def _pkg_with_funcs(P, alias, tag=None, file=None):
    i = P.imp(alias, tag, file=file)
    w = P.word()
    P.itgt(i, "", rcase(P.rng, w))
    if P.rng.random() < 0.5:
        P.itgt(i, P.nsword(), rcase(P.rng, P.word()))
    if P.rng.random() < 0.5:
        P.itgt(i, "", rcase(P.rng, P.word()))
    return i, w


def _decorate(P, i):
    """local targets and Aliases entries declared on a repeatedly imported package"""
    if P.rng.random() < 0.7:
        P.local("", rcase(P.rng, P.word()))
    if P.rng.random() < 0.6:
        P.alias(rcase(P.rng, P.rng.choice(["pk", "tb", "z:y"]), False), P.rng.choice(i["tgts"])["id"])
    if P.rng.random() < 0.3:
        P.alias(rcase(P.rng, "loc", False), P.local("", rcase(P.rng, P.word())))


def k_pkg_two_aliases(P, c):
    """one package under two aliases (one block or two files): alias1:name and alias2:name, no collision;
    collision next to it: an Aliases key spelled like alias2:name"""
    (a, ta), (b, _) = P.ialias(), P.ialias()
    f1 = P.rng.choice([0, 1])
    i, w = _pkg_with_funcs(P, a, ta, file=f1)
    P.imp(b, again=i, file=P.rng.choice([0, 1]))
    _decorate(P, i)
    if c:
        P.alias(rcase(P.rng, b + ":" + w, False), P.local("", rcase(P.rng, P.word())))


def k_pkg_root_and_alias(P, c):
    """a package as bare-tag import and under an alias: name and alias:name; collision: a local target spelled like name"""
    a, ta = P.ialias()
    i, w = _pkg_with_funcs(P, "" if P.rng.random() < 0.5 else a, file=P.rng.choice([0, 1]))
    P.imp(a if i["alias"] == "" else "", again=i, file=P.rng.choice([0, 1]))
    _decorate(P, i)
    P.local("", rcase(P.rng, w) if c else near(P.rng, w))


def k_pkg_three_aliases(P, c):
    """three aliases for one package; collision: another package under one of them sharing a function name"""
    als = [P.ialias()[0] for _ in range(3)]
    i, w = _pkg_with_funcs(P, als[0], file=P.rng.choice([0, 1]))
    for a in als[1:]:
        P.imp(a, again=i, file=P.rng.choice([0, 1]))
    _decorate(P, i)
    j = P.imp(P.rng.choice(als) if c else P.ial())
    P.itgt(j, "", rcase(P.rng, w))


def k_pkg_same_pair_twice(P, c):
    """the same (package, alias) pair written twice is one import; collision: a different package under that alias
    sharing a function name"""
    a, ta = P.ialias()
    i, w = _pkg_with_funcs(P, a, ta, file=P.rng.choice([0, 1]))
    P.imp(a, again=i, file=P.rng.choice([0, 1]))
    if P.rng.random() < 0.4:
        P.imp(P.ial(), again=i)
    _decorate(P, i)
    if c:
        P.itgt(P.imp(a), "", rcase(P.rng, w))


def k_pkg_root_twice(P, c):
    """the same package as a bare-tag import twice (two files or one block), possibly a third time and under an alias
    too: one import (commit 4a102aa), accepted, each name once"""
    i, w = _pkg_with_funcs(P, "", file=0)
    P.imp("", again=i, file=P.rng.choice([0, 1]))
    if P.rng.random() < 0.3:
        P.imp("", again=i, file=1)
    if P.rng.random() < 0.5:
        P.imp(P.ial(), again=i)
    _decorate(P, i)
    if c:
        P.local("", rcase(P.rng, w))


PLAIN_DECOYS = ["bad_param", "bad_param_slice", "bad_result", "two_results", "unexported", "non_ns_method", "test_file", "tagged_out"]
METHOD_DECOYS = ["ns_bad", "unexp_ns", "non_ns_method", "ns_bad"]


def decoys_like(P, where, t, n=None):
    """declarations that are not runnable names, spelled like the target t of the package `where`"""
    rng = P.rng
    for kind in rng.sample(PLAIN_DECOYS if not t["recv"] else METHOD_DECOYS, n or rng.choice([1, 2, 3])):
        nm = t["name"]
        if kind in ("bad_param", "bad_param_slice", "bad_result", "two_results"):
            P.decoy(where, kind, "", variant(rng, nm) if len(nm) > 1 else nm + "x")
        elif kind == "unexported":
            P.decoy(where, kind, "", nm[0].lower() + (nm[1:] if rng.random() < 0.5 else rcase(rng, nm[1:], False)))
        elif kind == "non_ns_method":
            P.decoy(where, kind, "Helper%d" % rng.randrange(100), nm if rng.random() < 0.5 else rcase(rng, nm))
        elif kind in ("test_file", "tagged_out"):
            P.decoy(where, kind, "", nm if rng.random() < 0.5 else rcase(rng, nm))
        elif kind == "ns_bad":
            P.decoy(where, kind, t["recv"], variant(rng, nm) if len(nm) > 1 else nm + "x")
        elif kind == "unexp_ns":
            P.decoy(where, kind, t["recv"][0].lower() + t["recv"][1:], nm)


def k_decoys(P, c):
    """exported non-targets (and other look-alikes) spelled like a target, in the magefile package and in an imported
    one: one runnable name per spelling, accepted; collision: a real case clash next to them"""
    rng = P.rng
    w = rcase(rng, P.word())
    P.local("", w)
    decoys_like(P, None, P.spec["locals"][-1], n=rng.choice([2, 3]))
    ns = P.nsword()
    if P.local(ns, rcase(rng, P.word())):
        decoys_like(P, None, P.spec["locals"][-1])
    a, tag = P.ialias()
    i = P.imp(a if rng.random() < 0.6 else "", tag)
    i["tag"] = i["alias"] and i["tag"]
    P.itgt(i, "", rcase(rng, P.word()))
    decoys_like(P, i, i["tgts"][-1])
    if rng.random() < 0.5 and P.itgt(i, P.nsword(), rcase(rng, P.word())):
        decoys_like(P, i, i["tgts"][-1])
    if c:
        P.local("", variant(rng, w))


def k_decoy_across(P, c):
    """an exported non-target of an imported package spelled like a LOCAL target or an alias key (root import / alias)"""
    rng = P.rng
    w = rcase(rng, P.word())
    d = P.local("", w)
    i = P.imp("")
    P.itgt(i, "", rcase(rng, P.word()))
    for kind in rng.sample(["bad_param", "bad_result", "unexported", "non_ns_method", "two_results"], 2):
        P.decoy(i, kind, "" if kind != "non_ns_method" else "Helper", (w[0].lower() + w[1:]) if kind == "unexported" else rcase(rng, w))
    key = rcase(rng, P.rng.choice(["ak", "k9"]), False)
    P.alias(key, d)
    P.decoy(None, "bad_result", "", key.capitalize() if key.capitalize() != key else key.upper())
    if c:
        P.itgt(i, "", rcase(rng, w))


def k_imported_aliases(P, c):
    """the imported package declares its own Aliases (and Default): keys spelled like a local target, a local alias
    key, one of its own targets, another import's target - all ignored, nothing collides, every name keeps running
    its own definition and the keys themselves are not runnable; collision: a real case clash next to it"""
    rng = P.rng
    w, k = P.word(), rcase(rng, rng.choice(["gn", "sh", "r7"]), False)
    d = P.local("", rcase(rng, w))
    other = P.local("", rcase(rng, P.word()))
    P.alias(k, other)
    named = rng.random() < 0.5
    a, tag = P.ialias()
    i = P.imp(a if named else "", tag)
    i["tag"] = i["alias"] and i["tag"]
    g1 = P.itgt(i, "", rcase(rng, P.word()))
    g2 = P.itgt(i, "", rcase(rng, P.word()))
    g3 = P.itgt(i, P.nsword(), rcase(rng, P.word())) if rng.random() < 0.5 else None
    j = P.imp(P.ial())
    jw = rcase(rng, P.word())
    P.itgt(j, "", jw)
    if named:
        # under the alias a the keys would be a:<key>: give the magefile names spelled like that
        ns = a.capitalize()
        m = P.local(ns, rcase(rng, P.word()))
        if m:
            P.own_alias(i, rcase(rng, P.spec["locals"][-1]["name"], False), g1)
        P.alias(rcase(rng, a + ":kx", False), other)
        P.own_alias(i, rcase(rng, "kx", False), g2)
    P.own_alias(i, rcase(rng, w, False), g1)                      # spelled like the local target
    P.own_alias(i, variant(rng, k, False) if rng.random() < 0.5 else k, g2)   # spelled like the local alias key
    P.own_alias(i, i["tgts"][1]["name"].lower(), g1)              # spelled like another target of the same package
    P.own_alias(i, rcase(rng, j["alias"] + ":" + jw, False), g3 or g2)        # spelled like another import's target
    short = rng.choice(["qq", "zx9", "only"])
    P.own_alias(i, short, g1)                                      # spelled like nothing: must stay unknown
    i["own_default"] = g1
    P.spec["nonwords"] = [short, (a + ":" + short) if named else short.upper()]
    if c:
        P.local("", variant(rng, P.spec["locals"][0]["name"]))


def k_named_import_same_names(P, c):
    """local Build/Test next to `mage:import ci` of a package with Build/Test (two or more targets): ci:build and
    build are different names; collision: the local namespace method Ci.Build against the imported ci:Build"""
    rng = P.rng
    a, tag = P.ialias()
    i = P.imp(a, tag)
    ws = [P.word() for _ in range(rng.choice([2, 3]))]
    for w in ws:
        P.itgt(i, "", rcase(rng, w))
        if rng.random() < 0.8:
            P.local("", rcase(rng, w))
    P.local(a.capitalize(), rcase(rng, ws[0]) if c else near(rng, ws[0]))


def k_alias_case(P, c):
    """import aliases differing only in letter case are ONE alias: two different packages under Tools / tools sharing a
    function name collide; without a shared name both are reachable under tools:..; one package under Tools and tools
    (and TOOLS) is one import"""
    rng = P.rng
    a, _ = P.ialias()
    i = P.imp(a, a.capitalize(), file=rng.choice([0, 1]))
    w = P.word()
    P.itgt(i, "", rcase(rng, w))
    P.itgt(i, "", rcase(rng, P.word()))
    P.imp(a, a.upper(), again=i, file=rng.choice([0, 1]))          # the same package once more, other spelling
    if rng.random() < 0.5:
        P.imp(a, rcase(rng, a, False), again=i, file=rng.choice([0, 1]))
    j = P.imp(a, rng.choice([a, a.upper(), rcase(rng, a, False)]), file=rng.choice([0, 1]))   # a different package
    P.itgt(j, "", rcase(rng, w) if c else rcase(rng, P.word()))
    P.local("", rcase(rng, P.word()))


# characters an alias key may carry besides letters (written raw into the Go literal); a key is matched verbatim
# after lower-casing.  Not generated: '"' and '\\' - measured on the unchanged tree they are spliced unescaped into
# the generated main, which then does not compile (outside this property, see C19/C06 notes)
KEY_SEPS = [" ", "\t", "-", ".", "_", "/", "'", "  ", "\u200b", "\u2060", "\ufffd", "\u00e9", "$", "%", "+"]


def k_alias_key_spelling(P, c):
    """alias keys with blanks, tabs, dashes, apostrophes, zero-width / format characters, U+FFFD, non-ASCII letters,
    leading / trailing blanks - next to a target and an alias that equal the key with those characters removed: all
    different names, `mage "pre commit"` runs the alias and `mage precommit` the target; collision: the same special
    key once more in another letter case"""
    rng = P.rng
    w1, w2 = P.word(), P.word()
    tgt = P.local("", rcase(rng, w1) + rcase(rng, w2))           # PreCommit
    ref = P.local("", rcase(rng, P.word()))
    ref2 = P.local("", rcase(rng, P.word()))
    seps = rng.sample(KEY_SEPS, rng.choice([2, 3]))
    keys = []
    for sp in seps:
        k = rcase(rng, w1 + sp + w2, False)
        if rng.random() < 0.2:
            k = rng.choice([" " + k, k + " ", "\t" + k])
        if P.alias(k, rng.choice([ref, ref2])):
            keys.append(k)
    if rng.random() < 0.5:
        v1, v2 = P.word(), P.word()                              # an alias equal to another key with the characters removed
        sp = rng.choice(KEY_SEPS)
        P.alias(rcase(rng, v1 + v2, False), ref)
        P.alias(rcase(rng, v1 + sp + v2, False), ref2)
    if rng.random() < 0.4:
        i = P.imp(P.ial())
        P.itgt(i, "", rcase(rng, P.word()))
        nm = i["alias"] + ":" + i["tgts"][0]["name"]
        P.alias(rcase(rng, i["alias"] + rng.choice([" :", ": ", "-", "\u200b:"]) + i["tgts"][0]["name"], False), ref)
    if c and keys:
        P.alias(variant(rng, keys[0], False), tgt)


def k_nonascii_case(P, c):
    """collision partners differing only in the case of a NON-ASCII letter (target/target, namespace methods,
    alias/target, alias/alias, root import/local); near-miss: look-alike letters that are not one letter in two cases"""
    rng = P.rng
    up, lo = rng.choice(UNI_SAME if c else UNI_NEAR)
    stem = P.word()
    k = rng.randrange(1, len(stem) + 1)
    a_, b_ = stem[:k] + up + stem[k:], stem[:k] + lo + stem[k:]          # first letter stays an ASCII capital: exported
    other = P.local("", rcase(rng, P.word()))
    sub = rng.choice(["tt", "mm", "at", "aa", "il", "at1"])
    if sub == "tt":
        P.local("", a_)
        P.local("", b_)
    elif sub == "mm":
        ns = P.nsword()
        P.local(ns, a_)
        P.local(ns, b_)
    elif sub == "at":
        P.local("", a_)
        P.alias(rcase(rng, b_, False), other)
    elif sub == "at1":                                  # the letter in front: Uebersicht-like target, alias in the other case
        t = up + stem.lower()
        if not P.local("", t):
            P.local("", a_)
            t = a_
        P.alias((lo + stem.lower()) if t != a_ else b_.lower(), other)
    elif sub == "aa":
        P.alias(rcase(rng, a_, False), other)
        P.alias(rcase(rng, b_, False), P.local("", rcase(rng, P.word())))
    else:
        i = P.imp("")
        P.itgt(i, "", a_)
        P.local("", b_)


def k_goflags_tags(P, c):
    """GOFLAGS=-tags=ci: a file of an imported package constrained on ci / !ci holds a function spelled like a local
    target; it counts exactly when the go tool compiles it under the same GOFLAGS.  collision: the file is compiled;
    near-miss: the file is not compiled (or the name only resembles)"""
    rng = P.rng
    w = P.word()
    P.local("", rcase(rng, w))
    i = P.imp("", file=0)
    P.itgt(i, "", rcase(rng, P.word()))
    tags_ci = rng.random() < 0.6
    on_ci = rng.random() < 0.5                           # the file wants ci (else !ci)
    compiled = (tags_ci == on_ci)
    if c and not compiled:
        on_ci = not on_ci
        compiled = True
    resembles = (not c) and compiled                     # compiled but only a near-miss name
    ident_ = P.itgt(i, "", near(rng, rcase(rng, w)) if resembles else rcase(rng, w))
    if ident_:
        i["tgts"][-1]["file"] = "zz_gated.go"
        line = "//go:build ci" if on_ci else "//go:build !ci"
        i["files"] = {"zz_gated.go": {"on": line, "off": line, "state": "on", "keep_times": False, "tgts_off": []}}
    P.spec["mode"] = rng.choice(["GOFLAGS=-tags=ci", "GOFLAGS=-tags=ci -trimpath"]) if tags_ci else rng.choice(["plain", "GOFLAGS=-trimpath"])
    P.spec["gate_by_tags"] = True


def k_namespace_twins(P, c):
    """near-miss twins with SIZE as a dimension: the magefile and a bare (sometimes also an aliased) import declare a
    same-named namespace with disjoint methods; 1..9 local targets; the shared namespace first / in the middle / last
    in go/doc's order (types by name, then functions by name), ending at count e of n targets - accepted, every name
    runs its own definition; collision: the imported namespace also has one of the local methods"""
    rng = P.rng
    if rng.random() < 0.6:
        # sizes at which Go's append has spare capacity behind the namespace's last target (4 and 8 elements)
        e, n = rng.choice([(3, 4), (3, 4), (5, 6), (5, 7), (5, 8), (6, 7), (6, 8), (7, 8), (2, 4), (1, 2)])
    else:
        n = rng.randint(1, 9)
        e = rng.randint(1, n)
    k = rng.randint(1, min(3, e))
    before, after = e - k, n - e
    shared = "Mm" if before else rng.choice(["Aa", "Mm"])
    for _ in range(before):
        P.local("Aa", rcase(rng, P.word()))
    ms = []
    for _ in range(k):
        w = rcase(rng, P.word())
        if P.local(shared, w):
            ms.append(w)
    later_ns = rng.randint(0, after) if rng.random() < 0.5 else 0
    for _ in range(later_ns):
        P.local("Zz", rcase(rng, P.word()))
    for _ in range(after - later_ns):
        P.local("", rcase(rng, P.word()))
    i = P.imp("")
    for _ in range(rng.choice([1, 2, 3])):
        P.itgt(i, shared, rcase(rng, P.word()))
    if rng.random() < 0.5:
        P.itgt(i, "", rcase(rng, P.word()))
    if rng.random() < 0.4 and ms:
        P.itgt(P.imp(P.ial()), shared, ms[0])            # same namespace AND method under an alias: al:ns:m is another name
    if rng.random() < 0.3 and ms and n < 9:
        P.local("Qq", ms[0])                              # the same method name in another namespace
    if c and ms:
        P.itgt(i, shared, rcase(rng, ms[0]))


def k_twins_misc(P, c):
    """same-named functions in different namespaces and packages, one alias key per import for equal targets:
    everything shared but the qualifying part - accepted; collision: two namespaces differing in case only"""
    rng = P.rng
    w = P.word()
    n1, n2 = P.nsword(), P.nsword()
    P.local(n1, rcase(rng, w))
    P.local(n2, rcase(rng, w))
    P.local("", rcase(rng, w))
    (a, ta), (b, tb) = P.ialias(), P.ialias()
    i, j = P.imp(a, ta), P.imp(b, tb)
    di = P.itgt(i, "", rcase(rng, w))
    dj = P.itgt(j, "", rcase(rng, w))
    P.itgt(i, n1, rcase(rng, w))
    P.itgt(j, n1, rcase(rng, w))
    P.alias(rcase(rng, a[0] + w, False), di)
    P.alias(rcase(rng, b[0] + w + "2", False), dj)
    for _ in range(rng.randint(0, 3)):
        P.local("", rcase(rng, P.word()))
    if c:
        P.local(variant(rng, n1), rcase(rng, w))


KINDS = [("fn_case", k_fn_case), ("method_case", k_method_case), ("namespace_case", k_namespace_case),
         ("fn_vs_method", k_fn_vs_method), ("two_imports_one_alias", k_two_imports_one_alias),
         ("same_name_two_aliases", k_same_name_two_aliases), ("root_vs_local", k_root_vs_local), ("two_roots", k_two_roots),
         ("alias_vs_local", k_alias_vs_local), ("alias_vs_imported", k_alias_vs_imported), ("alias_vs_alias", k_alias_vs_alias),
         ("alias_own_target", k_alias_own_target), ("import_internal_case", k_import_internal_case),
         ("alias_vs_method", k_alias_vs_method), ("import_alias_colon", k_import_alias_colon),
         ("pkg_two_aliases", k_pkg_two_aliases), ("pkg_root_and_alias", k_pkg_root_and_alias),
         ("pkg_three_aliases", k_pkg_three_aliases), ("pkg_same_pair_twice", k_pkg_same_pair_twice),
         ("pkg_root_twice", k_pkg_root_twice),
         ("decoys", k_decoys), ("decoy_across", k_decoy_across),
         ("imported_aliases", k_imported_aliases), ("named_import_same_names", k_named_import_same_names),
         ("alias_case", k_alias_case), ("alias_key_spelling", k_alias_key_spelling),
         ("nonascii_case", k_nonascii_case), ("nonascii_case", k_nonascii_case), ("goflags_tags", k_goflags_tags),
         ("namespace_twins", k_namespace_twins), ("namespace_twins", k_namespace_twins), ("namespace_twins", k_namespace_twins),
         ("twins_misc", k_twins_misc)]

EXACT_SIZE = {"namespace_twins"}

# ways of invoking mage that must not influence what is accepted or which body runs: (flags, environment)
MODES = {"plain": ([], {}), "-debug": (["-debug"], {}), "-v": (["-v"], {}), "MAGEFILE_DEBUG=1": ([], {"MAGEFILE_DEBUG": "1"}),
         "MAGEFILE_VERBOSE=1": ([], {"MAGEFILE_VERBOSE": "1"}), "-f": (["-f"], {}), "MAGEFILE_HASHFAST=1": ([], {"MAGEFILE_HASHFAST": "1"}),
         # colour: what is refused and which definitions the diagnosis names must not depend on it
         "COLOR=true TERM=xterm-256color": ([], {"MAGEFILE_ENABLE_COLOR": "true", "TERM": "xterm-256color"}),
         "COLOR=1 TERM=vt100": ([], {"MAGEFILE_ENABLE_COLOR": "1", "TERM": "vt100"}),
         "COLOR=true TERM=xterm": ([], {"MAGEFILE_ENABLE_COLOR": "true", "TERM": "xterm"}),
         "COLOR=true TERM=dumb": ([], {"MAGEFILE_ENABLE_COLOR": "true", "TERM": "dumb"}),
         "COLOR=true TERM=": ([], {"MAGEFILE_ENABLE_COLOR": "true", "TERM": ""}),
         "COLOR=true TARGET_COLOR=Red": ([], {"MAGEFILE_ENABLE_COLOR": "true", "MAGEFILE_TARGET_COLOR": "Red", "TERM": "xterm-256color"}),
         "TARGET_COLOR=BrightCyan": ([], {"MAGEFILE_TARGET_COLOR": "BrightCyan", "TERM": "xterm-256color"}),
         # the go tool's environment
         "GOFLAGS=-tags=ci": ([], {"GOFLAGS": "-mod=mod -tags=ci"}),
         "GOFLAGS=-tags=ci -trimpath": ([], {"GOFLAGS": "-mod=mod -tags=ci -trimpath"}),
         "GOFLAGS=-trimpath": ([], {"GOFLAGS": "-mod=mod -trimpath"})}


def mode_has_ci(mode):
    return "-tags=ci" in MODES[mode][1].get("GOFLAGS", "")


def gate_by_tags(spec):
    """switch every file constrained on ci / !ci on or off as the go tool would under the spec's GOFLAGS"""
    ci = mode_has_ci(spec.get("mode", "plain"))
    for holder, key in [(spec, "locals")] + [(i, "tgts") for i in spec["imports"]]:
        for fn_, g in holder.get("files", {}).items():
            if g["on"] not in ("//go:build ci", "//go:build !ci"):
                continue
            want = (g["on"] == "//go:build ci") == ci
            if want and g["state"] == "off":
                holder[key] += g["tgts_off"]
                g["tgts_off"], g["state"] = [], "on"
            elif not want and g["state"] == "on":
                g["tgts_off"] = [t for t in holder[key] if t.get("file") == fn_]
                gone = set(t["id"] for t in g["tgts_off"])
                holder[key][:] = [t for t in holder[key] if t.get("file") != fn_]
                spec["aliases"] = [x for x in spec["aliases"] if x["ref"] not in gone]
                g["state"] = "off"
MODE_POOL = ["plain"] * 5 + ["-debug"] * 3 + ["MAGEFILE_DEBUG=1"] * 2 + ["-v", "MAGEFILE_VERBOSE=1", "-f", "MAGEFILE_HASHFAST=1"] + \
            ["GOFLAGS=-tags=ci", "GOFLAGS=-tags=ci -trimpath", "GOFLAGS=-trimpath"] + \
            ["COLOR=true TERM=xterm-256color"] * 2 + ["COLOR=1 TERM=vt100", "COLOR=true TERM=xterm", "COLOR=true TERM=dumb", "COLOR=true TERM=",
                                                    "COLOR=true TARGET_COLOR=Red", "TARGET_COLOR=BrightCyan"]


def fillers(P):
    """unrelated definitions around the pair under test"""
    rng = P.rng
    for _ in range(rng.choice([0, 0, 1, 2, 3])):
        P.local("", rcase(rng, P.word()))
    if rng.random() < 0.3:
        ns = P.nsword()
        for _ in range(rng.choice([1, 2])):
            P.local(ns, rcase(rng, P.word()))
    if rng.random() < 0.3:
        a, tag = P.ialias()
        i = P.imp(a if rng.random() < 0.7 else "", tag)
        i["tag"] = i["alias"] and i["tag"]
        for _ in range(rng.choice([1, 2])):
            P.itgt(i, "" if rng.random() < 0.7 else "Grp", rcase(rng, P.word()))
    if rng.random() < 0.25:
        where = rng.choice([None] + P.spec["imports"])
        tg = P.spec["locals"] if where is None else where["tgts"]
        if tg:
            decoys_like(P, where, rng.choice(tg))
    if rng.random() < 0.25 and P.spec["imports"]:
        i = rng.choice(P.spec["imports"])
        names = [runnable(all_defs(P.spec)[x], y) for x, y in exposures(P.spec)] + [x["key"] for x in P.spec["aliases"]]
        if i["tgts"] and names:
            P.own_alias(i, rcase(rng, rng.choice(names), False), rng.choice(i["tgts"])["id"])
            if rng.random() < 0.5:
                i["own_default"] = rng.choice(i["tgts"])["id"]
    for k in rng.sample(["zz", "f1", "al9", "k:l", "w8", "z z", "f-1", "q\u200bq", "k l"], rng.choice([0, 0, 1, 2])):
        P.alias(rcase(rng, k, False), P.some_def())


def soup(P):
    """few names, many places: accidental collisions of every kind"""
    rng = P.rng
    names = rng.sample(["Build", "BUILD", "BuilD", "Test", "TEST", "X"], 3)
    recvs = ["", "", "Ns", rng.choice(["NS", "Nt"])]
    for _ in range(rng.choice([1, 2, 3, 4])):
        P.local(rng.choice(recvs), rng.choice(names))
    for _ in range(rng.choice([0, 1, 2, 2])):
        if P.spec["imports"] and rng.random() < 0.3:
            P.imp(rng.choice(["", "ns", "lib", "dev"]), again=rng.choice(P.spec["imports"]))
            continue
        i = P.imp(rng.choice(["", "ns", "lib", "lib"]))
        for _ in range(rng.choice([1, 2, 3])):
            P.itgt(i, rng.choice(["", "", "Ns"]), rng.choice(names))
    for _ in range(rng.choice([0, 1, 2, 3])):
        P.alias(rng.choice(["build", "BUILD", "Build", "ns:build", "Ns:Test", "lib:build", "lib:ns:x", "test", "x", "b", "T"]), P.some_def())


def choose_words(P):
    rng = P.rng
    spec = P.spec
    ws = []
    defs = all_defs(spec)
    for i, a in exposures(spec):
        ws.append(wcase(rng, runnable(defs[i], a)))
    for a in spec["aliases"]:
        ws.append(wcase(rng, a["key"]))
        if rng.random() < 0.3:
            ws.append(a["key"])
    rng.shuffle(ws)
    spec["words"] = ws


# ---------------------------------------------------------------- histories: one directory, one cache, several states
def _drop(spec, ident_):
    """a copy of spec without the target whose id is ident_ (and without alias entries denoting it)"""
    import copy
    a = copy.deepcopy(spec)
    a["locals"] = [t for t in a["locals"] if t["id"] != ident_]
    for i in a["imports"]:
        i["tgts"] = [t for t in i["tgts"] if t["id"] != ident_]
    a["aliases"] = [x for x in a["aliases"] if x["ref"] != ident_]
    return a


def h_root_vs_local(P):          # the imported package gains a function spelled like a local target
    w = P.word()
    P.local("", rcase(P.rng, w))
    i = P.imp("", file=0)
    P.itgt(i, "", rcase(P.rng, P.word()))
    return P.itgt(i, "", rcase(P.rng, w)), True


def h_alias_vs_imported(P):      # ... spelled like an alias key alias:name of the magefile
    a, tag = P.ialias()
    i = P.imp(a, tag, file=0)
    P.itgt(i, "", rcase(P.rng, P.word()))
    w = P.word()
    P.alias(rcase(P.rng, a + ":" + w, False), P.local("", rcase(P.rng, P.word())))
    return P.itgt(i, "", rcase(P.rng, w)), True


def h_two_imports_one_alias(P):  # ... spelled like a function of another package under the same alias
    a, tag = P.ialias()
    i, j = P.imp(a, tag, file=0), P.imp(a, file=0)
    w = P.word()
    P.itgt(i, "", rcase(P.rng, w))
    P.itgt(j, "", rcase(P.rng, P.word()))
    P.local("", rcase(P.rng, P.word()))
    return P.itgt(j, "", rcase(P.rng, w)), True


def h_import_internal(P):        # ... differing in case from one of its own functions
    a, tag = P.ialias()
    i = P.imp(P.rng.choice([a, ""]), file=0)
    w = rcase(P.rng, P.word())
    P.itgt(i, "", w)
    P.local("", rcase(P.rng, P.word()))
    return P.itgt(i, "", variant(P.rng, w)), True


def h_local_case(P):             # the magefile gains a function differing in case from another
    w = rcase(P.rng, P.word())
    P.local("", w)
    i = P.imp("", file=0)
    P.itgt(i, "", rcase(P.rng, P.word()))
    return P.local("", variant(P.rng, w)), True


def h_local_vs_root(P):          # the magefile gains a function spelled like a root-imported one
    w = P.word()
    i = P.imp("", file=0)
    P.itgt(i, "", rcase(P.rng, w))
    P.local("", rcase(P.rng, P.word()))
    return P.local("", rcase(P.rng, w)), True


def h_decoy_import(P):           # the imported package gains a NON-target spelled like a local target: still accepted
    w = rcase(P.rng, P.word())
    P.local("", w)
    i = P.imp("", file=0)
    P.itgt(i, "", rcase(P.rng, P.word()))
    k = P.rng.choice(["bad_param", "bad_result", "two_results", "unexported"])
    P.decoy(i, k, "", (w[0].lower() + w[1:]) if k == "unexported" else w)
    return None, False


# ways of switching a file off and on by rewriting its //go:build line in place: (off, on, same length?)
FLIPS_IMPORT = [("//go:build ignore", "", False), ("//go:build ignore", "//go:build !ignor", True),
                ("//go:build plan9", "//go:build linux", True), ("//go:build never_set", "//go:build !never_set", False),
                ("//go:build linux && windows", "//go:build linux || windows", True)]
FLIPS_MAGEFILE = [("//go:build magx", "//go:build mage", True), ("//go:build mage && plan9", "//go:build mage && linux", True),
                  ("//go:build ignore", "//go:build mage", False), ("//go:build mage && ignore", "//go:build mage", False)]


def h_constraint_flip(P):
    """WHICH files count changes without creating, removing or renaming anything: a file of an imported package (or a
    second magefile) holds one or two functions and is switched off / on by its //go:build line, rewritten in place.
    Switched on, a function is spelled like a local target / a root-imported function (collision) or like nothing else
    (a new runnable name)"""
    rng = P.rng
    w = P.word()
    i = P.imp(rng.choice(["", "", P.ial()]), file=0)
    i["tag"] = i["alias"]
    P.itgt(i, "", rcase(rng, P.word()))
    in_import = rng.random() < 0.65
    collides = rng.random() < 0.65 and (i["alias"] == "" or not in_import)
    if in_import:
        P.local("", rcase(rng, w))
        off, on, same = rng.choice(FLIPS_IMPORT)
        ids = [P.itgt(i, "", rcase(rng, w) if collides else rcase(rng, P.word()))]
        if rng.random() < 0.4:
            ids.append(P.itgt(i, "", rcase(rng, P.word())))
        holder, tg = i, i["tgts"]
    else:
        P.itgt(i, "", rcase(rng, w))
        P.local("", rcase(rng, P.word()))
        off, on, same = rng.choice(FLIPS_MAGEFILE)
        ids = [P.local("", (rcase(rng, w) if i["alias"] == "" else variant(rng, P.spec["locals"][0]["name"])) if collides else rcase(rng, P.word()))]
        holder, tg = P.spec, P.spec["locals"]
    ids = [x for x in ids if x]
    for t in tg:
        if t["id"] in ids:
            t["file"] = "zz_gated.go"
    holder["files"] = {"zz_gated.go": {"on": on, "off": off, "state": "on", "keep_times": same, "tgts_off": []}}
    return ("gate", ids), collides


def _gate_off(spec):
    """a copy of spec with every gated file switched off: its functions are no targets any more"""
    import copy
    a = copy.deepcopy(spec)
    for holder, key in [(a, "locals")] + [(i, "tgts") for i in a["imports"]]:
        for fn_, g in holder.get("files", {}).items():
            g["tgts_off"] = [t for t in holder[key] if t.get("file") == fn_]
            g["state"] = "off"
            gone = set(t["id"] for t in g["tgts_off"])
            holder[key] = [t for t in holder[key] if t.get("file") != fn_]
            a["aliases"] = [x for x in a["aliases"] if x["ref"] not in gone]
    return a


HISTORIES = [("constraint_flip", h_constraint_flip), ("constraint_flip", h_constraint_flip), ("imp:root_vs_local", h_root_vs_local), ("imp:alias_vs_imported", h_alias_vs_imported),
             ("imp:two_imports_one_alias", h_two_imports_one_alias), ("imp:import_internal", h_import_internal),
             ("mage:local_case", h_local_case), ("mage:local_vs_root", h_local_vs_root), ("imp:decoy", h_decoy_import)]


def history(rng, name, hk, fn):
    """[state, ...]: the same project before / after / before the edit (or after / before / after)"""
    import copy
    P = Proj(rng, name, "hist:" + hk, None)
    ident_, collides = fn(P)
    P.finish()
    b = P.spec
    if isinstance(ident_, tuple):
        a = _gate_off(b)
    elif ident_ is not None:
        a = _drop(b, ident_)
    else:
        a = copy.deepcopy(b)
        a["decoys"] = []
        for i in a["imports"]:
            i["decoys"] = []
    a["collide"], b["collide"] = False, collides
    seq = [a, b, a] if rng.random() < 0.7 else [b, a, b]
    out = []
    for k, st in enumerate(seq):
        st = copy.deepcopy(st)
        P.spec = st
        choose_words(P)
        st["step"] = k
        st["cmds"] = ["l", "h", "run"] + (["compiled"] if rng.random() < 0.4 else [])
        st["mode"] = rng.choice([m for m in MODE_POOL if m != "MAGEFILE_HASHFAST=1"])      # hashfast documents staleness
        out.append(st)
    return out


def generate(rng, reps, soups, hists=1):
    """list of histories; a plain project is a history with one state"""
    specs = []
    def name():
        return "c07_%04d" % len(specs)
    for rep in range(reps):
        for kind, fn in KINDS:
            for c in (True, False):
                P = Proj(rng, name(), kind, c)
                if kind in EXACT_SIZE and rng.random() < 0.7:
                    fn(P, c)                               # the size is the point: nothing around it
                elif rng.random() < 0.5:
                    fillers(P)
                    fn(P, c)
                else:
                    fn(P, c)
                    fillers(P)
                if rng.random() < 0.3:
                    rng.shuffle(P.spec["locals"])
                P.finish()
                if "mode" not in P.spec:
                    P.spec["mode"] = rng.choice(MODE_POOL)
                gate_by_tags(P.spec)
                choose_words(P)
                specs.append([P.spec])
        # two collisions of different kinds in one package (which one is reported first is not compared)
        for _ in range(3):
            (k1, f1), (k2, f2) = rng.sample(KINDS, 2)
            c2 = rng.random() < 0.7
            P = Proj(rng, name(), "multi:%s+%s" % (k1, k2), True)
            f1(P, True)
            f2(P, c2)
            P.finish()
            gate_by_tags(P.spec)
            choose_words(P)
            specs.append([P.spec])
    for rep in range(hists):
        for hk, fn in HISTORIES:
            specs.append(history(rng, name(), hk, fn))
    for _ in range(soups):
        P = Proj(rng, name(), "soup", None)
        soup(P)
        P.finish()
        choose_words(P)
        P.spec["mode"] = rng.choice(MODE_POOL)
        specs.append([P.spec])
    return specs


# ---------------------------------------------------------------- rendering
def _body(t):
    return 'error { return probe.Call("%s") }' % t["id"]


DECOY_BODY = {
    "bad_param": "func %s(x float64) error { return nil }\n",
    "bad_param_slice": "func %s(xs []string) error { return nil }\n",
    "bad_result": 'func %s() string { return "" }\n',
    "two_results": "func %s() (int, error) { return 0, nil }\n",
    "unexported": "func %s() error { return nil }\n",
    "test_file": "func %s() error { return nil }\n",
    "tagged_out": "func %s() error { return nil }\n",
}


def _decls(tgts, decoys=()):
    out = []
    inscope = [x for x in decoys if x["kind"] not in ("test_file", "tagged_out")]
    nss = set(t["recv"] for t in tgts if t["recv"]) | set(x["recv"] for x in inscope if x["kind"] in ("ns_bad", "unexp_ns"))
    for ns in sorted(nss):
        out.append("type %s mg.Namespace\n" % ns)
    for h in sorted(set(x["recv"] for x in inscope if x["kind"] == "non_ns_method")):
        out.append("type %s struct{}\n" % h)
    for t in tgts:
        if t["recv"]:
            out.append("func (%s) %s() %s\n" % (t["recv"], t["name"], _body(t)))
        else:
            out.append("func %s() %s\n" % (t["name"], _body(t)))
    for x in inscope:
        if x["kind"] == "ns_bad":
            out.append('func (%s) %s(xs []string) string { return "" }\n' % (x["recv"], x["name"]))
        elif x["kind"] in ("unexp_ns", "non_ns_method"):
            out.append("func (%s) %s() error { return nil }\n" % (x["recv"], x["name"]))
        else:
            out.append(DECOY_BODY[x["kind"]] % x["name"])
    return "\n".join(out)


def _needs_mg(tgts, decoys=()):
    return any(t["recv"] for t in tgts) or any(x["kind"] in ("ns_bad", "unexp_ns") for x in decoys)


def _gated_files(holder, key, pkgname, prefix, mod):
    """the files of one package that a //go:build line switches on or off"""
    files = {}
    for fn_, g in holder.get("files", {}).items():
        tg = [t for t in holder[key] if t.get("file") == fn_] if g["state"] == "on" else g["tgts_off"]
        line = g[g["state"]]
        files[prefix + fn_] = (line + "\n\n" if line else "") + 'package %s\n\nimport (\n\t"%s/probe"\n)\n\n' % (pkgname, mod) + _decls(tg)
    return files


def _side_files(pkgname, decoys, prefix, tag):
    """the _test file and the file excluded by a build constraint of one package"""
    files = {}
    tf = [x for x in decoys if x["kind"] == "test_file"]
    if tf:
        files[prefix + "decoy_test.go"] = tag + "package %s\n\n" % pkgname + "\n".join(DECOY_BODY["test_file"] % x["name"] for x in tf)
    to = [x for x in decoys if x["kind"] == "tagged_out"]
    if to:
        files[prefix + "zz_excluded.go"] = "//go:build ignore\n\npackage %s\n\n" % pkgname + "\n".join(DECOY_BODY["tagged_out"] % x["name"] for x in to)
    return files


def _goref(spec, ref):
    for t in spec["locals"]:
        if t["id"] == ref:
            return (t["recv"] + "." if t["recv"] else "") + t["name"], None
    for i in spec["imports"]:
        for t in i["tgts"]:
            if t["id"] == ref:
                return i["pkg"] + "." + (t["recv"] + "." if t["recv"] else "") + t["name"], i["pkg"]
    raise KeyError(ref)


def render(spec):
    files = {}
    mod = "example.test/%s" % spec["name"]
    used = set()
    entries = []
    for a in spec["aliases"]:
        ref, pkg = _goref(spec, a["ref"])
        if pkg:
            used.add(pkg)
        entries.append("\t%s: %s,\n" % (_goq(a["key"]), ref))
    for fno, fname in ((0, "magefile.go"), (1, "magefile2.go")):
        specs = [i for i in spec["imports"] if i.get("file", 0) == fno]
        if fno == 1 and not specs:
            continue
        imps = []
        if fno == 0:
            if any(not t.get("file") for t in spec["locals"]):
                imps.append('\t"%s/probe"\n' % mod)
            if _needs_mg(spec["locals"], spec.get("decoys", ())):
                imps.append('\t"github.com/magefile/mage/mg"\n')
            # a package named by an Aliases value needs one non-blank import in this file
            for pkg in sorted(used):
                if not any(i["pkg"] == pkg for i in specs):
                    imps.append('\t"%s/imp/%s"\n' % (mod, pkg))
        named_here = set()
        for i in specs:
            imps.append("\t%s\n" % i.get("tagline", "// mage:import%s" % ((" " + i["tag"]) if i["alias"] else "")))
            blank = not (fno == 0 and i["pkg"] in used and i["pkg"] not in named_here)
            if not blank:
                named_here.add(i["pkg"])
            imps.append('\t%s"%s"\n' % ("_ " if blank else "", ipath(spec, i)))
        src = "//go:build mage\n\npackage main\n\n"
        if imps:
            src += "import (\n" + "".join(imps) + ")\n\n"
        if fno == 0:
            if entries:
                src += "var Aliases = map[string]interface{}{\n" + "".join(entries) + "}\n\n"
            src += _decls([t for t in spec["locals"] if not t.get("file")], spec.get("decoys", ()))
        files[fname] = src
    files.update(_gated_files(spec, "locals", "main", "", mod))
    files.update(_side_files("main", spec.get("decoys", ()), "", "//go:build mage\n\n"))
    done = set()
    for i in spec["imports"]:
        if i["pkg"] in done:
            continue
        done.add(i["pkg"])
        s = "package %s\n\n" % i["pkg"]
        im = []
        if any(not t.get("file") for t in i["tgts"]):
            im.append('\t"%s/probe"\n' % mod)
        if _needs_mg(i["tgts"], i.get("decoys", ())):
            im.append('\t"github.com/magefile/mage/mg"\n')
        if im:
            s += "import (\n" + "".join(im) + ")\n\n"
        byid = {t["id"]: ((t["recv"] + "." if t["recv"] else "") + t["name"]) for t in i["tgts"]}
        if i.get("own_aliases"):
            s += "var Aliases = map[string]interface{}{\n" + "".join("\t%s: %s,\n" % (_goq(a["key"]), byid[a["ref"]]) for a in i["own_aliases"] if a["ref"] in byid) + "}\n\n"
        if i.get("own_default") in byid:
            s += "var Default = %s\n\n" % byid[i["own_default"]]
        s += _decls([t for t in i["tgts"] if not t.get("file")], i.get("decoys", ()))
        files["imp/%s/%s.go" % (i["pkg"], i["pkg"])] = s
        files.update(_side_files(i["pkg"], i.get("decoys", ()), "imp/%s/" % i["pkg"], ""))
        files.update(_gated_files(i, "tgts", i["pkg"], "imp/%s/" % i["pkg"], mod))
    return files


def _goq(s):
    """an interpreted Go string literal with every character written raw (no escapes: mage reads the literal's text)"""
    assert all((ord(c) >= 32 or c == "\t") and c not in '"\\' and ord(c) != 127 for c in s), repr(s)
    return '"' + s + '"'
