"""C19: abstract magefile projects with mage:import specs -> Go sources on disk; the oracle
(a direct Python reading of the property sentence on the ABSTRACT project); Coq printers.

An abstract project is a JSON-able dict (it is the replay case):

  name      project directory (and module name unless "module" is given)
  module    optional: module name; projects of a sequence share it, so equal import paths name different packages
  layout    "inside" | "inside-root" | "sibling" | "parent" | "outside" | "outside-rel" | "ownmod"   (where mage is started, see start())
  odd       True: contains shapes the property sentence does not decide or known deviations;
            only model-vs-implementation is compared, the oracle is not asked
  packages  [{"dir": "imp/pa", "pkg": "pa", "funcs": [{"name","sig"[,"file": "more"]}] ("file": the function lives in <file>.go - e.g. "x_linux", "x_amd64" -, "build": that file starts with `//go:build <build>`, "foreign": the file belongs to another platform than the host: its function is NO target of the package here), "ns": [{"name", "methods":[{"name","sig"}]}],
              "default": name|None, "aliases": {alias: func}, "unexported": [...], "nontarget": bool, "nested": dir|None}]
  local     {"funcs": [...], "ns": [...], "default": name|None}
  files     [{"name": "mf_0.go", "decls": [decl]}]
  decl      {"kind": "single"|"group", "gdoc": [comment lines above `import (`], "specs": [spec]}
  spec      {"pkg": index into packages | "std:os", "name": None|"_"|"imN",
             "lead": [comment lines directly above], "detached": bool (a blank line after them),
             "trail": None | "// text", "raw": bool}

Nothing here looks at mage's output or at the Coq model.
"""
import json, re

# ------------------------------------------------------------------ vocabulary
FUNC_NAMES = ["Build", "Test", "Deploy", "Clean", "BuildAll", "HTMLDocs", "Lint", "Gen", "Install",
              "Release", "Check", "Fmt", "Vet", "Docs", "Run", "B", "X86Asm",
              # initial letters spread over the alphabet: local and imported names interleave when sorted
              "Apply", "Audit", "Cover", "Export", "Juggle", "Kill", "Migrate", "Notify", "Open", "Pack", "Query",
              "Seed", "Sync", "Tidy", "Upload", "Watch", "Yank", "Zip", "ZZTop", "Aa"]
NS_NAMES = ["Docker", "Ns", "DB", "Tools", "K8s", "Go"]
ALIASES = ["tools", "ci", "Ops", "x", "dk", "Lib", "NS2", "a-b", "v1.2", "go_x", "Tools", "docker"]
SIGS = ["plain", "err", "ctx"]
PLAIN_COMMENTS = ["// c", "//", "// tools we use", "// TODO: tidy", "//  indented", "// see mage:import below", "//nolint"]
DECOYS = ["// mage:import decoy", "// mage:import", "//mage:import other", "// MAGE:IMPORT Zed"]
NOT_TAGS = ["// mage:imports x", "// mage: import", "// xmage:import", "// mage:importx", "// +mage:import",
            "// import mage", "// mage import"]


SPELLINGS = ["plain", "upper", "nospace", "spaces", "tabs", "mixed"]


def tag_line(rng, kind, alias, sp=None):
    """a comment line that is a mage:import line in one of the spellings. kind: root | alias | three"""
    sp = sp or rng.choice(["plain"] + SPELLINGS)
    tag = {"plain": "mage:import", "upper": "MAGE:IMPORT", "nospace": "mage:import", "spaces": "mage:import",
           "tabs": "mage:import", "mixed": "Mage:Import"}[sp]
    if kind == "root":
        words = [tag]
    elif kind == "alias":
        words = [tag, alias]
    else:
        words = [tag, alias, rng.choice(["extra", "b", "// x"])]
    if sp == "nospace":
        return "//" + " ".join(words), sp
    if sp == "spaces":
        return "//   " + "    ".join(words) + rng.choice(["", "  "]), sp
    if sp == "tabs":
        return "//\t" + "\t".join(words), sp
    return "// " + " ".join(words), sp


# ------------------------------------------------------------------ the property sentence (oracle)
def words_of(comment):
    """a `//` comment read as words: marker off, lower-cased, split at white space"""
    assert comment.startswith("//")
    return comment[2:].lower().split()


def import_line(comment):
    """None | ("root",) | ("alias", a) | ("malformed",) for one comment text"""
    if comment is None or not comment.startswith("//"):
        return None
    w = words_of(comment)
    if not w or w[0] != "mage:import":
        return None
    if len(w) == 1:
        return ("root",)
    if len(w) == 2:
        return ("alias", w[1])
    return ("malformed",)


def oracle_tag(spec):
    """The property sentence on one abstract spec: the leading comment group (attached: no blank
    line between it and the spec) ENDS with a mage:import line, or it carries one as trailing comment.
    returns None (contributes nothing) | "" (own names) | alias"""
    lead = spec["lead"] if (spec["lead"] and not spec["detached"]) else []
    t = import_line(lead[-1]) if lead else None
    if t is None:
        t = import_line(spec["trail"])
    if t is None or t[0] == "malformed":
        return None
    return "" if t[0] == "root" else t[1]


def pkg_targets(pk):
    """[(receiver, name)] the targets of an abstract package (exported functions and namespace methods)"""
    return ([("", f["name"]) for f in pk["funcs"] if not f.get("foreign") and f["sig"] != "bad"] +
            [(n["name"], m["name"]) for n in pk["ns"] for m in n["methods"]])


def defid(path, recv, name):
    return "%s|%s|%s" % (path or "main", recv, name)


def module_path(proj):
    # "module": two projects in different directories may be the SAME module path (sequence stream)
    return "example.test/" + (proj.get("module") or proj["name"]) + ("mf" if proj["layout"] == "ownmod" else "")


def import_path(proj, pk):
    return module_path(proj) + "/" + pk["dir"]


def oracle_expected(proj):
    """{listed name (lower-cased) -> def-id} the property sentence demands, or raises on a name clash
    (then the generator draws again)"""
    exp = {}

    def put(name, d):
        k = name.lower()
        if k in exp and exp[k] != d:
            raise NameClash(k)
        exp[k] = d
    for recv, name in pkg_targets(proj["local"]):
        put((recv + ":" if recv else "") + name, defid("", recv, name))
    for f in proj["files"]:
        for d in f["decls"]:
            for s in d["specs"]:
                if not isinstance(s["pkg"], int):
                    continue
                a = oracle_tag(s)
                if a is None:
                    continue
                pk = proj["packages"][s["pkg"]]
                for recv, name in pkg_targets(pk):
                    put((a + ":" if a else "") + (recv + ":" if recv else "") + name, defid(import_path(proj, pk), recv, name))
    return exp


class NameClash(Exception):
    pass


# ------------------------------------------------------------------ rendering
def body(sig, did):
    if sig == "bad":       # a parameter type mage does not support: an exported function, no target
        return '(f float64) { probe.Must("%s") }' % did
    if sig == "plain":
        return '() { probe.Must("%s") }' % did
    if sig == "err":
        return '() error { return probe.Call("%s") }' % did
    return '(ctx context.Context) error { return probe.Call("%s") }' % did


def render_targets(out, pk, path, need, part=None):
    for f in pk["funcs"]:
        if f.get("file") != part:
            continue
        out.append("// %s %s." % (f["name"], f.get("doc") or "does something"))
        if f.get("longdoc"):       # a very long doc comment
            out += ["// line %d of the description of %s: %s." % (k, f["name"], "lorem ipsum " * 8) for k in range(f["longdoc"])]
        out.append("func %s%s\n" % (f["name"], body(f["sig"], defid(path, "", f["name"]))))
    if part is not None:
        return
    for n in pk["ns"]:
        out.append("type %s mg.Namespace\n" % n["name"])
        for m in n["methods"]:
            out.append("func (%s) %s%s\n" % (n["name"], m["name"], body(m["sig"], defid(path, n["name"], m["name"]))))


def uses(pk, part=None):
    if part is not None:
        sigs = [f["sig"] for f in pk["funcs"] if f.get("file") == part]
        return {"ctx": "ctx" in sigs, "mg": False, "probe": bool(sigs)}
    sigs = [f["sig"] for f in pk["funcs"] if not f.get("file")] + [m["sig"] for n in pk["ns"] for m in n["methods"]]
    return {"ctx": "ctx" in sigs, "mg": bool(pk["ns"]) or bool(pk.get("zoo")), "probe": bool(sigs)}


# DECLARATION KINDS that are NOT targets (C06's classification of go/doc's mode-0 view): every one
# has an exported, target-compatible function or method somewhere, and none may be exposed - and
# the project must still build.
ZOO = '''
// an UNEXPORTED namespace type with an exported method: go/doc (mode 0) does not show the type
type zooSteps mg.Namespace

// Prepare would be a target if its type were exported.
func (zooSteps) ZooPrepare() error { return nil }

// an exported namespace type with an unexported method (ZooNs itself contributes nothing)
type ZooNs mg.Namespace

func (ZooNs) zooHidden() {}

// methods of types that are no namespaces, exported and not
type ZooPlain struct{}

// ZooRun is a method of an ordinary type.
func (ZooPlain) ZooRun() {}

type zooInt int

func (zooInt) ZooGo() error { return nil }

// an unexported function with a target signature
func zooSecret() error { return nil }

// functions go/doc files under a type: constructors returning a type of the package
func NewZooPlain() ZooPlain { return ZooPlain{} }

// MakeZooPlain returns a pointer.
func MakeZooPlain() *ZooPlain { return &ZooPlain{} }

// a type ALIAS of mg.Namespace (it cannot have methods of its own)
type ZooAlias = mg.Namespace

// a namespace type defined through another defined type: textually not mg.Namespace
type ZooBase mg.Namespace
type ZooDerived ZooBase

// ZooBuild is a method of a type that is only indirectly a namespace.
func (ZooDerived) ZooBuild() {}

// a struct EMBEDDING the namespace type
type ZooEmb struct{ mg.Namespace }

// ZooDo is a method of a struct.
func (ZooEmb) ZooDo() error { return nil }

var _ = zooSecret
var _ = zooInt(0)
var _ = zooSteps{}
'''


def render_package(proj, pk):
    path = import_path(proj, pk)
    u = uses(pk)
    out = ["// Package %s is generated." % pk["pkg"], "package %s\n" % pk["pkg"]]
    imps = []
    if u["ctx"]:
        imps.append('"context"')
    if u["mg"]:
        imps.append('"github.com/magefile/mage/mg"')
    if u["probe"]:
        imps.append('"%s/probe"' % module_path(proj))
    if pk.get("nested") is not None:
        # an import tagged inside an imported package: Package() does not follow it
        imps.append('// mage:import\n\t_ "%s/%s"' % (module_path(proj), pk["nested"]))
    if imps:
        out.append("import (\n\t" + "\n\t".join(imps) + "\n)\n")
    out.append("// Marker lets importers mention the package.\nconst Marker = 1\n")
    if pk.get("default"):
        out.append("// Default of an imported package is not the default of the magefile.\nvar Default = %s\n" % pk["default"])
    if pk.get("aliases"):
        out.append("// Aliases of an imported package are not aliases of the magefile.\nvar Aliases = map[string]interface{}{\n" +
                   "".join('\t"%s": %s,\n' % (a, f) for a, f in pk["aliases"].items()) + "}\n")
    render_targets(out, pk, path, u)
    for n in pk.get("unexported", []):
        out.append("func %s() {}\n" % n)
    if pk.get("zoo"):
        out.append(ZOO)
    if pk.get("nontarget"):
        out.append("// NotATarget has a parameter type mage does not support.\nfunc NotATarget(f float64) float64 { return f }\n")
        out.append("type plain struct{}\n\n// Method of an ordinary type.\nfunc (plain) Method() {}\n")
    return "\n".join(out)


def render_extra_file(proj, pk, part):
    """<part>.go of an imported package: the functions that were added to it later"""
    u = uses(pk, part)
    out = []
    cons = [f["build"] for f in pk["funcs"] if f.get("file") == part and f.get("build")]
    if cons:
        out += ["//go:build %s" % cons[0], ""]
    out.append("package %s\n" % pk["pkg"])
    imps = (['"context"'] if u["ctx"] else []) + (['"%s/probe"' % module_path(proj)] if u["probe"] else [])
    if imps:
        out.append("import (\n\t" + "\n\t".join(imps) + "\n)\n")
    render_targets(out, pk, import_path(proj, pk), u, part)
    return "\n".join(out)


def spec_text(proj, s):
    if isinstance(s["pkg"], int):
        p = import_path(proj, proj["packages"][s["pkg"]])
    else:
        p = s["pkg"].split(":", 1)[1]
    lit = ("`%s`" % p) if s.get("raw") else ('"%s"' % p)
    t = (s["name"] + " " if s["name"] else "") + lit
    if s["trail"]:
        t += " " + s["trail"]
    return t


def render_magefile(proj, f, first):
    out = ["//go:build mage", "", "package main", ""]
    loc = proj["local"] if first else {"funcs": [], "ns": [], "default": None}
    u = uses(loc)
    mentions = []
    for d in f["decls"]:
        if d["kind"] == "single":
            s = d["specs"][0]
            out += s["lead"]
            if s["detached"]:
                out.append("")
            out.append("import " + spec_text(proj, s))
        else:
            out += d["gdoc"]
            out.append("import (")
            for s in d["specs"]:
                out += ["\t" + l for l in s["lead"]]
                if s["detached"]:
                    out.append("")
                out.append("\t" + spec_text(proj, s))
            out.append(")")
        out.append("")
        for s in d["specs"]:
            if s["name"] not in (None, "_"):
                mentions.append("var _ = %s.Marker" % s["name"]) if isinstance(s["pkg"], int) else mentions.append("var _ = %s.Args" % s["name"])
            elif s["name"] is None and not isinstance(s["pkg"], int):
                mentions.append("var _ = %s.Args" % s["pkg"].split(":", 1)[1])
    imps = []
    if u["ctx"]:
        imps.append('"context"')
    if u["mg"]:
        imps.append('"github.com/magefile/mage/mg"')
    if u["probe"]:
        imps.append('"%s/probe"' % module_path(proj))
    if imps:
        out.append("import (\n\t" + "\n\t".join(imps) + "\n)\n")
    out += mentions
    out.append("")
    if first and loc.get("zoo"):
        out.append(ZOO)
    if first and loc.get("default"):
        out.append("var Default = %s\n" % loc["default"])
    render_targets(out, loc, "", u)
    return "\n".join(out) + "\n"


GO_MOD = """module %s

go 1.21

require github.com/magefile/mage v0.0.0

replace github.com/magefile/mage => %s
"""

MFDIR = {"inside": "build", "inside-root": ".", "sibling": "build", "parent": "build", "outside": "build", "outside-rel": "build",
         "ownmod": "magefiles"}


FS_SHAPES = ["symlink-same", "symlink-elsewhere", "symlink-outside", "symlink-chain", "hardlink", "perm0400",
             "name:with-dash", "name:dot.name", "name:UPPER", "name:sp ace", "name:uni_\u00e9", "name:plus+eq="]


def _place(files, ops, dirrel, base, shape, text, tag):
    """put the source file <dirrel>/<base>.go with the given file-system shape into files / ops.
    ops: ("symlink", link rel, target) | ("hardlink", rel, source rel) | ("chmod", rel, mode) | ("mkdir", rel);
    a path starting with "@outside/" lies in the run's directory outside every module."""
    j = lambda *a: "/".join(x for x in a if x not in (".", ""))
    go = j(dirrel, base + ".go")
    if shape in (None, "regular") or shape.startswith("name:"):
        files[go] = text
    elif shape == "perm0400":
        files[go] = text
        ops.append(("chmod", go, 0o400))
    elif shape == "symlink-same":
        files[j(dirrel, base + ".src")] = text
        ops.append(("symlink", go, base + ".src"))
    elif shape == "symlink-elsewhere":
        tgt = j("linked", tag + "_" + base + ".src")
        files[tgt] = text
        ops.append(("symlink", go, "/".join([".."] * len([x for x in dirrel.split("/") if x not in (".", "")]) + [tgt])))
    elif shape == "symlink-outside":
        tgt = "@outside/" + tag + "_" + base + ".src"
        files[tgt] = text
        ops.append(("symlink", go, tgt))
    elif shape == "symlink-chain":
        files[j(dirrel, base + ".l2")] = text
        ops.append(("symlink", j(dirrel, base + ".l1"), base + ".l2"))
        ops.append(("symlink", go, base + ".l1"))
    elif shape == "hardlink":
        files[j(dirrel, base + ".src")] = text
        ops.append(("hardlink", go, j(dirrel, base + ".src")))
    else:
        raise ValueError(shape)


def filler_name(k, namelen):
    return ("ff%05d_" % k) + "x" * max(0, namelen - 11) + ".go"


def render_project(proj, repo, probe_go, ops=None):
    """{relative path: text} of the whole project directory; ops (a list) receives the file-system
    operations to be done after the files are written (links, modes, directories)"""
    files = {}
    ops = ops if ops is not None else []
    mfdir = MFDIR[proj["layout"]]
    modroot = "magefiles" if proj["layout"] == "ownmod" else "."
    j = lambda *a: "/".join(x for x in a if x not in (".", ""))
    if proj["layout"] == "ownmod":
        files["go.mod"] = "module example.test/%s\n\ngo 1.21\n" % proj["name"]
        files["doc.go"] = "// Package %s is the project the magefiles directory belongs to.\npackage %s\n" % (proj["name"], proj["name"])
    files[j(modroot, "go.mod")] = GO_MOD % (module_path(proj), repo)
    files[j(modroot, "probe/probe.go")] = probe_go
    for pk in proj["packages"]:
        files[j(modroot, pk["dir"], pk["pkg"] + ".go")] = render_package(proj, pk)
        for part in sorted({f["file"] for f in pk["funcs"] if f.get("file")}):
            shape = next((f.get("shape") for f in pk["funcs"] if f.get("file") == part and f.get("shape")), None)
            _place(files, ops, j(modroot, pk["dir"]), part, shape, render_extra_file(proj, pk, part), proj["name"] + "_" + pk["dir"].replace("/", "_"))
        fl = pk.get("filler")
        if fl:                                     # hundreds of source files with long names and nothing in them
            for k in range(fl["count"]):
                files[j(modroot, pk["dir"], filler_name(k, fl["namelen"]))] = "package %s\n" % pk["pkg"]
        for c in pk.get("clutter", []):
            kind, nm = c.split(":", 1)
            if kind == "dir":                      # a directory with a .go name: ignored by everyone
                ops.append(("mkdir", j(modroot, pk["dir"], nm)))
            elif kind == "dangling":               # a symlink to nowhere with a .go name
                ops.append(("symlink", j(modroot, pk["dir"], nm), "nowhere-" + nm))
    for i, f in enumerate(proj["files"]):
        _place(files, ops, mfdir, f["name"][:-3], (proj.get("mf_shapes") or {}).get(f["name"]), render_magefile(proj, f, i == 0), proj["name"] + "_mf")
    if proj["layout"] in ("sibling",):
        files["other/doc.go"] = "// Package other is a sibling directory.\npackage other\n"
    return files


def start(proj, projdir, outside):
    """(cwd, args prefix, magefile directory) for the project's start place"""
    lay = proj["layout"]
    mf = projdir if MFDIR[lay] == "." else projdir + "/" + MFDIR[lay]
    if lay in ("inside", "inside-root"):
        return mf, [], mf
    if lay == "sibling":
        return projdir + "/other", ["-d", "../build"], mf
    if lay == "parent":
        return projdir, ["-d", "build"], mf
    if lay == "outside":
        return outside, ["-d", mf], mf
    if lay == "outside-rel":       # from the directory above the module, with a relative path
        up = projdir.rsplit("/", 1)[0]
        return up, ["-d", mf[len(up) + 1:]], mf
    return projdir, [], mf     # ownmod: mage finds ./magefiles itself


# ------------------------------------------------------------------ generation
def gen_funcs(rng, pool, n):
    return [{"name": nm, "sig": rng.choice(SIGS)} for nm in rng.sample(pool, n)]


def gen_package(rng, i, shape=None, nfuncs=None):
    """shape: funcs (only plain functions) | both | ns (ALL targets are namespace methods, one or
    several namespace types, no exported plain function at all) | ns+helper (namespace methods plus an
    exported function that is no target) | empty (no targets at all)"""
    shape = shape or rng.choice(["funcs"] * 6 + ["both"] * 4 + ["ns", "ns", "ns+helper", "ns+helper", "empty"])
    pk = {"dir": "imp/p%d" % i, "pkg": rng.choice(["p%d" % i, "tools", "lib", "build"]) if rng.random() < 0.3 else "p%d" % i,
          "funcs": [] if shape in ("ns", "ns+helper", "empty") else gen_funcs(rng, FUNC_NAMES, nfuncs if nfuncs is not None else rng.choice([1, 1, 2, 2, 3])),
          "ns": [], "default": None, "aliases": {}, "shape": shape,
          "unexported": rng.sample(["helper", "build", "run"], rng.choice([0, 1, 2])),
          "nontarget": shape == "ns+helper" or (shape in ("funcs", "both") and rng.random() < 0.3), "nested": None}
    if shape in ("both", "ns", "ns+helper"):
        for nn in rng.sample(NS_NAMES, rng.choice([1, 1, 2, 3] if shape == "ns" else [1, 1, 2])):
            pk["ns"].append({"name": nn, "methods": gen_funcs(rng, FUNC_NAMES, rng.choice([1, 2]))})
    if pk["funcs"] and rng.random() < 0.6:
        pk["default"] = rng.choice(pk["funcs"])["name"]
    if pk["funcs"] and rng.random() < 0.6:
        for a in rng.sample(["zz", "qq", "go", "ship", "b"], rng.choice([1, 2])):
            pk["aliases"][a + str(i)] = rng.choice(pk["funcs"])["name"]
    return pk


FOREIGN = {"linux": "windows", "windows": "linux", "darwin": "linux", "amd64": "arm64", "arm64": "amd64"}


def add_platform_files(rng, pk, host_os, host_arch):
    """spread further targets of the package over platform-constrained files: a host-OS suffix
    file, a host-arch suffix file, a `//go:build <hostos>` file - all part of the package on the
    host - and files of a foreign OS / architecture whose functions are NOT targets here"""
    used = {f["name"] for f in pk["funcs"]}
    free = [n for n in FUNC_NAMES if n not in used]
    rng.shuffle(free)
    fos, farch = FOREIGN.get(host_os, "plan9"), FOREIGN.get(host_arch, "riscv64")
    kinds = [("on_%s" % host_os, None, False), ("on_%s" % host_arch, None, False), ("tagged", host_os, False),
             ("both_%s_%s" % (host_os, host_arch), None, False),
             ("on_%s" % fos, None, True), ("on_%s" % farch, None, True), ("ftagged", "%s || %s" % (fos, farch), True)]
    chosen = rng.sample(kinds[:4], rng.choice([1, 2, 3])) + rng.sample(kinds[4:], rng.choice([1, 2]))
    for (fname, build, foreign), nm in zip(chosen, free):
        f = {"name": nm, "sig": rng.choice(SIGS), "file": fname, "foreign": foreign}
        if build:
            f["build"] = build
        pk["funcs"].append(f)
    pk["shape"] = pk.get("shape", "?") + "+platform"
    return pk


def add_tag_files(rng, pk, active, host_os):
    """further targets of the package in files constrained on build TAGS (`//go:build t`, `!t`, `u`,
    `t && u`, `t || <other os>`, `t && <host os>`); active = the tags GOFLAGS=-tags=... selects in
    the environment the project is run in: a function in a file that is not selected is no target"""
    fos = FOREIGN.get(host_os, "plan9")
    kinds = [("tag_t", "t", "t" in active), ("tag_not_t", "!t", "t" not in active), ("tag_u", "u", "u" in active),
             ("tag_t_and_u", "t && u", {"t", "u"} <= set(active)), ("tag_t_or_other_os", "t || " + fos, "t" in active),
             ("tag_t_and_host_os", "t && " + host_os, "t" in active), ("tag_not_u", "!u", "u" not in active)]
    used = {f["name"] for f in pk["funcs"]}
    free = [n for n in FUNC_NAMES if n not in used]
    rng.shuffle(free)
    chosen = kinds[:2] + rng.sample(kinds[2:], rng.choice([1, 2, 3]))
    for (part, build, selected), nm in zip(chosen, free):
        pk["funcs"].append({"name": nm, "sig": rng.choice(SIGS), "file": part, "build": build, "foreign": not selected})
    pk["shape"] = pk.get("shape", "?") + "+tags"
    return pk


def add_fs_shapes(rng, pk, shapes):
    """further targets of the package in source files of the given file-system shapes (one function
    per file), a directory with a .go name, and a file the go tool ignores by its name"""
    used = {f["name"] for f in pk["funcs"]}
    free = [n for n in FUNC_NAMES if n not in used]
    rng.shuffle(free)
    for k, (shape, nm) in enumerate(zip(shapes, free)):
        base = shape.split(":", 1)[1] if shape.startswith("name:") else "fs%d_%s" % (k, shape.replace("-", "_"))
        pk["funcs"].append({"name": nm, "sig": rng.choice(SIGS), "file": base, "shape": shape})
    if rng.random() < 0.6:
        pk.setdefault("clutter", []).append("dir:x.go")
    if rng.random() < 0.5 and len(free) > len(shapes):
        pk["funcs"].append({"name": free[len(shapes)], "sig": "plain", "file": rng.choice(["_under", ".hidden"]), "foreign": True})
    pk["shape"] = pk.get("shape", "?") + "+fs"
    return pk


def gen_lead(rng, n_pre, tagline, position):
    """the leading comment lines. position: last (the tag ends the group) | followed (a comment line
    after the tag) | first (tag first, plain lines after) | none (no tag line at all)"""
    def pre(k):
        return [rng.choice(PLAIN_COMMENTS if rng.random() < 0.75 else DECOYS) for _ in range(k)]
    if position == "none":
        ls = pre(n_pre)
        if ls and import_line(ls[-1]) is not None:      # a decoy must not end the group here
            ls[-1] = rng.choice(PLAIN_COMMENTS[:3])
        return ls
    if position == "last":
        return pre(n_pre) + [tagline]
    if position == "followed":
        return pre(n_pre) + [tagline, rng.choice(PLAIN_COMMENTS[:4] + NOT_TAGS)]
    return [tagline] + [rng.choice(PLAIN_COMMENTS[:3])] * max(1, n_pre)


def gen_spec(rng, pkg, placement, n_pre, kind, position="last", alias=None, sp=None, detached=False):
    """placement: single_above | single_trail | group_lead | group_trail.
    kind: root | alias | three | nottag | untagged | both (leading tag and a different trailing tag)"""
    alias = alias or rng.choice(ALIASES)
    s = {"pkg": pkg, "name": rng.choice(["_", "_", "_", "im%d" % pkg]), "lead": [], "detached": False, "trail": None, "raw": False,
         "meta": {"placement": placement, "n_pre": n_pre, "kind": kind, "position": position}}
    if kind == "untagged":
        s["lead"] = gen_lead(rng, n_pre, None, "none")
        s["trail"] = rng.choice([None, None, "// plain"])
        return s
    if kind == "nottag":
        line, sp = rng.choice(NOT_TAGS), "nottag"
    elif kind == "both":
        line, sp = tag_line(rng, rng.choice(["root", "alias"]), alias, sp)
        other = rng.choice([a for a in ALIASES if a.lower() != alias.lower()])
        s["trail"] = tag_line(rng, "alias", other)[0]
    else:
        line, sp = tag_line(rng, kind, alias, sp)
    s["meta"]["spelling"] = sp
    s["detached"] = detached
    if kind == "both":
        s["lead"] = gen_lead(rng, n_pre, line, position)
    elif placement.endswith("trail"):
        s["lead"] = gen_lead(rng, n_pre, None, "none")
        s["trail"] = line
    else:
        s["lead"] = gen_lead(rng, n_pre, line, position)
    return s


def assemble(rng, name, layout, specs, npk, odd=False, nlocal=None):
    """put the specs (each importing its own package unless it says otherwise) into files and declarations.
    nlocal: exactly that many local targets (plain functions, no namespace)"""
    proj = {"name": name, "layout": layout, "odd": odd, "packages": [gen_package(rng, i) for i in range(npk)],
            "local": {"funcs": gen_funcs(rng, FUNC_NAMES, nlocal if nlocal is not None else rng.choice([0, 1, 2, 3, 3, 4, 5])), "ns": [], "default": None}, "files": []}
    if nlocal is None and rng.random() < 0.5:
        proj["local"]["ns"].append({"name": rng.choice(NS_NAMES), "methods": gen_funcs(rng, FUNC_NAMES, rng.choice([1, 2]))})
    if proj["local"]["funcs"] and rng.random() < 0.4:
        proj["local"]["default"] = proj["local"]["funcs"][0]["name"]
    if npk >= 2 and rng.random() < 0.3:
        proj["packages"][0]["nested"] = proj["packages"][1]["dir"]
    nfiles = rng.choice([1, 1, 2, 3])
    files = [{"name": "mf_%d.go" % i, "decls": []} for i in range(nfiles)]
    group = {}
    for s in specs:
        f = rng.choice(files)
        if s["meta"]["placement"].startswith("single"):
            f["decls"].append({"kind": "single", "gdoc": [], "specs": [s]})
        else:
            g = group.get(f["name"])
            if g is None or rng.random() < 0.3:
                g = {"kind": "group", "gdoc": rng.choice([[], [], ["// imports"], ["// mage:import wrongplace"]]), "specs": []}
                group[f["name"]] = g
                f["decls"].append(g)
            g["specs"].append(s)
    # an ordinary import without any tag in some group / of its own
    if rng.random() < 0.6:
        f = rng.choice(files)
        std = {"pkg": "std:os", "name": None, "lead": rng.choice([[], ["// os is an ordinary import"]]), "detached": False, "trail": None,
               "raw": False, "meta": {"placement": "std", "n_pre": 0, "kind": "untagged", "position": "none"}}
        g = group.get(f["name"])
        if g is not None and rng.random() < 0.5:
            g["specs"].insert(rng.randrange(len(g["specs"]) + 1), std)
        else:
            f["decls"].insert(rng.randrange(len(f["decls"]) + 1), {"kind": "single", "gdoc": [], "specs": [std]})
    proj["files"] = files
    return proj


def _rename(pk, fnames, nsnames, mnames):
    ren = {}
    for f in pk["funcs"]:
        ren[f["name"]] = f["name"] = next(fnames)
    if pk.get("default"):
        pk["default"] = ren[pk["default"]]
    if pk.get("aliases"):
        pk["aliases"] = {a: ren[f] for a, f in pk["aliases"].items()}
    for n in pk["ns"]:
        n["name"] = next(nsnames)
        ms = mnames(len(n["methods"]))
        for m in n["methods"]:
            m["name"] = next(ms)


def _fresh(rng, pool):
    k = 1
    while True:
        l = list(pool)
        rng.shuffle(l)
        for x in l:
            yield x if k == 1 else "%s%d" % (x, k)
        k += 1


def uniquify(rng, proj):
    """all function, method and namespace names of the project pairwise distinct"""
    fn, ns = _fresh(rng, FUNC_NAMES), _fresh(rng, NS_NAMES)
    for pk in proj["packages"] + [proj["local"]]:
        _rename(pk, fn, ns, lambda k: fn)
    return proj


def rename_until_clash_free(rng, proj, tries=40):
    """draw the names of the packages' and the magefile's targets again until the names the
    property demands are pairwise distinct (collisions are C07's subject); give up on realistic
    repeated names after a while and make all names distinct"""
    for _ in range(tries):
        try:
            oracle_expected(proj)
            return proj
        except NameClash:
            pass
        for pk in proj["packages"] + [proj["local"]]:
            _rename(pk, iter(rng.sample(FUNC_NAMES, len(pk["funcs"]))), iter(rng.sample(NS_NAMES, len(pk["ns"]))),
                    lambda k: iter(rng.sample(FUNC_NAMES, k)))
    uniquify(rng, proj)
    oracle_expected(proj)
    return proj


# ------------------------------------------------------------------ Coq printers
def cs(s):
    b = s.encode("utf-8")
    if all(32 <= c < 127 for c in b):
        return '"' + s.replace('"', '""') + '"'
    return "(bs [" + ";".join(str(c) for c in b) + "])"


def cl(items):
    return "[" + "; ".join(items) + "]"


def cgroup(g):
    return "None" if g is None else "(Some %s)" % cl([cs(x) for x in g])


def cfiles(ast):
    """ast: what harness/importast printed for the project's magefiles"""
    fs = []
    for decls in ast:
        ds = []
        for d in decls:
            specs = ["{| is_doc := %s; is_comment := %s; is_path := %s; is_raw := %s |}" % (
                cgroup(s["doc"]), cgroup(s["comment"]), cs(s["path"]), "true" if s["raw"] else "false") for s in d["specs"]]
            ds.append("{| gd_doc := %s; gd_lparen := %s; gd_specs := %s |}" % (cgroup(d["doc"]), "true" if d["lparen"] else "false", cl(specs)))
        fs.append(cl(ds))
    return cl(fs)


def cfunc(path, recv, name):
    return '{| f_alias := ""; f_path := %s; f_recv := %s; f_name := %s |}' % (cs(path), cs(recv), cs(name))


def cpkg(pk, gofiles=None):
    """gofiles: the .GoFiles the go tool reports for the package (host platform forced, as mage does
    for every go command): a function whose file is not among them is not in the package"""
    if gofiles is None:
        funcs = [cfunc("", r, n) for r, n in pkg_targets(pk)]
    else:
        funcs = [cfunc("", "", f["name"]) for f in pk["funcs"] if (f.get("file") or pk["pkg"]) + ".go" in gofiles and f["sig"] != "bad"]
        funcs += [cfunc("", n["name"], m["name"]) for n in pk["ns"] for m in n["methods"]]
    return "{| pk_name := %s; pk_funcs := %s; pk_default := %s; pk_aliases := %s |}" % (
        cs(pk["pkg"]), cl(funcs), "None" if not pk.get("default") else "(Some %s)" % cs(pk["default"]),
        cl(["(%s, %s)" % (cs(a), cs(f)) for a, f in (pk.get("aliases") or {}).items()]))
