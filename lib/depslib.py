"""Shared by C01, C02, C03, C13 (and the context half of C12): program generator, the depsrun
harness driver, translation of programs and observed traces into Coq terms, trace acceptance by
the model (Model/DepsReplay.accepts evaluated by coqc) and the direct oracles."""
import json, os, itertools, shutil
from vlib import *

CTX_KINDS = (2, 3, 5, 7, 8)
ERR_KINDS = (1, 3, 5, 6, 8)
NAMES = {}  # (kind,slot) -> display name


def display_name(kind, slot):
    if kind in (4, 5, 8):
        return "main.NS.N%d_%d" % (kind, slot)
    return "N%d_%d" % (kind, slot)


CODES = [1, 2, 3, 7, 99, 255, 256, 258, 300, 511, 65543, -1, -3, 2147483647]   # mg.Fatal takes any int: codes outside 0..255, pairs that agree mod 256 (2/258, 255/511/-1), negative ones


def zs(n):
    """a Z literal for a Coq term"""
    return str(n) if n >= 0 else "(%d)" % n


def gen_call(rng, maxdep, has_ctx, root=False):
    n = rng.choice([1, 1, 2, 2, 3, 4]) if maxdep > 0 else 0
    if rng.random() < 0.04:
        n = 0
    deps = [rng.randrange(maxdep) for _ in range(n)]
    if deps and rng.random() < 0.25:
        deps.append(rng.choice(deps))          # the same dependency repeated in one call
    c = {"style": rng.choice(["par", "par", "ser"]), "ctx": "fwd" if (has_ctx and rng.random() < 0.5) else "bg",
         "deps": deps, "guarded": rng.random() < (0.8 if root else 0.45)}
    if rng.random() < 0.3:
        # some mentions name a plain function as mg.F(f): the same dependency as the bare f
        c["wrap"] = [rng.random() < 0.5 for _ in deps]
    return c


def gen_program(rng, nmax=8, serial_bias=False, fail_rate=0.35):
    n = rng.choice([2, 3, 3, 4, 4, 5, 6, 7, 8][: max(1, nmax - 1)]) if nmax < 9 else rng.randrange(2, nmax + 1)
    nodes = []
    used = {}
    for k in range(n):
        kind = rng.randrange(9)
        slot = k % 24
        args = None
        if kind in (6, 7, 8):
            # sometimes reuse the function of an earlier node with different argument values
            prev = [m for m in nodes if m["kind"] == kind]
            if prev and rng.random() < 0.5:
                slot = rng.choice(prev)["slot"]
            if kind == 6:
                args = [k, rng.choice(["a", "b", "x y", ""])]
            elif kind == 7:
                args = [rng.random() < 0.5, 1000 + k]
            else:
                args = ["s%d" % k]
        has_ctx = kind in CTX_KINDS
        ncalls = rng.choice([0, 0, 1, 1, 1, 2, 3]) if k > 0 else 0
        calls = [gen_call(rng, k, has_ctx) for _ in range(ncalls)]
        if serial_bias:
            for c in calls:
                if rng.random() < 0.6:
                    c["style"] = "ser"
        r = rng.random()
        if r > fail_rate:
            res = {"t": "ok", "code": 0}
        else:
            opts = ["panicerr", "panicfatal", "panicval"]
            if kind in ERR_KINDS:
                opts += ["err", "err", "fatal", "fatal", "errwrap", "errzero", "errnilptr"]
            t = rng.choice(opts)
            res = {"t": t, "code": rng.choice(CODES) if t in ("fatal", "panicfatal", "errwrap") else 1}
            if rng.random() < 0.25 and t not in ("errwrap", "errzero", "errnilptr"):
                res["silent"] = True        # the failure carries an EMPTY message: it is a failure all the same
        nd = {"kind": kind, "slot": slot, "calls": calls, "result": res}
        if args is not None:
            nd["args"] = args
        nodes.append(nd)
    nroots = rng.choice([1, 1, 2, 2, 3])
    roots = []
    for i in range(nroots):
        ctxk = rng.choice(["tag", "bg"])
        calls = [gen_call(rng, n, True, root=True) for _ in range(rng.choice([1, 2, 2, 3]))]
        if serial_bias:
            for c in calls:
                if rng.random() < 0.6:
                    c["style"] = "ser"
        root = {"ctx": ctxk, "calls": calls}
        if ctxk == "tag" and rng.random() < 0.35:
            root["cancel_after"] = rng.choice([1, 1, 2, 3, 5])    # the context is cancelled mid-run: nothing may change
        roots.append(root)
    ngates = sum(len(nd["calls"]) + 1 for nd in nodes) + sum(len(r["calls"]) + 1 for r in roots)
    prio = list(range(ngates))
    rng.shuffle(prio)
    if rng.random() < 0.3:
        prio = prio[: len(prio) // 2]
    return {"nodes": nodes, "roots": roots, "prio": prio, "quiet_us": 250, "free": rng.random() < 0.1,
            "verbose": rng.random() < 0.5, "debug": rng.random() < 0.3}


# ---------------------------------------------------------------- Coq terms
def call_term(c):
    return "{| c_style := %s; c_ctx := %s; c_deps := %s; c_guarded := %s |}" % (
        "Par" if c["style"] == "par" else "Ser", "Fwd" if c["ctx"] == "fwd" else "Bg",
        coq_list([str(d) for d in c["deps"]]), coq_bool(c["guarded"]))


def outcome_term(k, r):
    t = r["t"]
    if t == "ok":
        return "Ok"
    if r.get("silent"):
        return {"err": "(Err 1 [])", "fatal": "(Err %s [])" % zs(r["code"]), "panicerr": "(PanicErr 1 [])",
                "panicfatal": "(PanicErr %s [])" % zs(r["code"])}.get(t, "(PanicVal [])")
    if t == "err":
        return "(Err 1 [%d])" % k
    if t == "errwrap":
        return "(Err 1 [%d])" % k        # an ordinary error WRAPPING mg.Fatal(code): its status is 1, the wrapped code is not looked for
    if t == "errnilptr":
        return "(Err 1 [])"              # a typed-nil pointer error: non-nil, status 1, empty message
    if t == "errzero":
        return "(Err 0 [%d])" % k        # a non-nil error whose ExitStatus() is 0: a failure all the same, with status 0
    if t == "fatal":
        return "(Err %s [%d])" % (zs(r["code"]), k)
    if t == "panicerr":
        return "(PanicErr 1 [%d])" % k
    if t == "panicfatal":
        return "(PanicErr %s [%d])" % (zs(r["code"]), k)
    return "(PanicVal [%d])" % k


def name_ids(prog):
    ids = {}
    for nd in prog["nodes"]:
        ids.setdefault((nd["kind"], nd["slot"]), len(ids))
    return ids


def prog_term(prog):
    ids = name_ids(prog)
    nodes = ["{| b_calls := %s; b_result := %s; b_name := %d |}" % (
        coq_list([call_term(c) for c in nd["calls"]]), outcome_term(k, nd["result"]), ids[(nd["kind"], nd["slot"])])
        for k, nd in enumerate(prog["nodes"])]
    roots = ["(%s, %s)" % (coq_list([call_term(c) for c in r["calls"]]), "CTag %d" % i if r["ctx"] == "tag" else "CBg")
             for i, r in enumerate(prog["roots"])]
    return "{| nodes := %s; roots := %s; verbose := %s |}" % (coq_list(nodes), coq_list(roots), coq_bool(prog["verbose"]))


def tid_term(t):
    return "(TRoot %s)" % t[1:] if t[0] == "r" else "(TBody %s)" % t[1:]


def toks_term(toks):
    return coq_list([t[1:] for t in toks or []])


def ev_term(e):
    k = e["e"]
    if k == "bs":
        c = e.get("ctx", "none")
        cc = "None" if c == "none" else ("(Some CBg)" if c == "bg" else "(Some (CTag %s))" % c[3:])
        return "OBodyStart %d %s" % (e["k"], cc)
    if k == "be":
        r = e["r"]
        res = "RNil" if r == "nil" else "(%s %s %s)" % ("RErr" if r == "err" else "RPanic", zs(e["code"]), toks_term(e.get("toks")))
        return "OBodyEnd %d %s" % (e["k"], res)
    if k == "ce":
        return "OCallEnter %s %d" % (tid_term(e["t"]), e["pc"])
    if k == "cr":
        return "OCallReturn %s %d" % (tid_term(e["t"]), e["pc"])
    if k == "cp":
        return "OCallPanic %s %d %s %s" % (tid_term(e["t"]), e["pc"], zs(e["code"]), toks_term(e.get("toks")))
    raise ValueError(k)


def case_term(prog, trace, logs):
    ids = name_ids(prog)
    counts = {}
    for name, c in logs.items():
        counts[name] = c
    logl = []
    for (kind, slot), i in ids.items():
        logl.append("(%d, %d)" % (i, counts.get(display_name(kind, slot), 0)))
    fuel = 50 + 8 * sum(len(c["deps"]) + 2 for nd in prog["nodes"] + prog["roots"] for c in nd["calls"])
    return "{| c_prog := %s; c_obs := %s; c_logs := %s; c_fuel := %d |}" % (
        prog_term(prog), coq_list([ev_term(e) for e in trace]), coq_list(logl), fuel)


# ---------------------------------------------------------------- running
KNOWN_KNOBS = {"MAGEFILE_CACHE", "MAGEFILE_DEBUG", "MAGEFILE_ENABLE_COLOR", "MAGEFILE_GOCMD", "MAGEFILE_HASHFAST", "MAGEFILE_HELP",
               "MAGEFILE_IGNOREDEFAULT", "MAGEFILE_LIST", "MAGEFILE_SPECIFIC_THING", "MAGEFILE_TARGET_COLOR", "MAGEFILE_TIMEOUT",
               "MAGEFILE_VERBOSE"}


# ambient variables the models know (read by mage at HEAD, or by the Go runtime / go tool and not mage's own)
KNOWN_AMBIENT = {"TERM", "HOME", "HOMEDRIVE", "HOMEPATH", "PATH", "GOOS", "GOARCH", "GOCACHE", "GOFLAGS", "GOPATH", "GOROOT",
                 "TMPDIR", "PWD", "USERPROFILE"}


def discover_knobs():
    """Environment variables that the non-test sources of the tree under test READ and that no model knows about:
    every MAGEFILE_* name occurring anywhere, and every name handed to os.Getenv / os.LookupEnv or bound to a constant
    whose identifier ends in Env (CI, GITHUB_ACTIONS, RUNNER_DEBUG, ...).  Whatever they are meant for, setting them must
    not change what the properties fix - they become an environment dimension.  Empty on the unchanged tree."""
    import re as _re
    found = set()
    for root, _, files in os.walk(REPO):
        if "/testdata" in root or "/.git" in root or "/site" in root:
            continue
        for fn in files:
            if fn.endswith(".go") and not fn.endswith("_test.go"):
                try:
                    txt = open(os.path.join(root, fn), errors="replace").read()
                except OSError:
                    continue
                found |= set(_re.findall(r"MAGEFILE_[A-Z0-9_]+", txt))
                found |= set(_re.findall(r"(?:Getenv|LookupEnv)\(\s*\"([A-Za-z_][A-Za-z0-9_]*)\"", txt))
                found |= set(_re.findall(r"\b[A-Za-z0-9_]*Env\s*=\s*\"([A-Z][A-Z0-9_]+)\"", txt))
    return sorted(found - KNOWN_KNOBS - KNOWN_AMBIENT)


_API_INFO = {}


def api_info(gen_path=None):
    """API DISCOVERY (the counterpart of discover_knobs for exported functions): harness/apiprobe type-checks packages mg, sh
    and target of the tree under test and lists the exported package-level functions (and func-typed variables) that the
    API at /repo HEAD does not have - names no model knows.  With gen_path it also writes the Go file that calls each of
    them with arguments synthesised from the parameter types (tools/notes/APIprobe.md).  Returns the tool's JSON summary
    ({"names": [...], "called": [...], "skipped": {...}, ...}); {"names": []} on the unchanged tree."""
    import tempfile, subprocess
    if REPO in _API_INFO and not gen_path:
        return _API_INFO[REPO]
    tmp = tempfile.mkdtemp(prefix="vpapi_")
    try:
        binp = os.path.join(tmp, "apiprobe")
        rc, o, e = sh(["go", "build", "-o", binp, "."], cwd=os.path.join(VERIF, "harness", "apiprobe"), env=goenv(), timeout=600)
        if rc != 0:
            raise BuildError("go build of harness/apiprobe failed:\n%s" % (o + e)[-2000:])
        rc, o, e = sh([binp] + (["-o", gen_path] if gen_path else []) + [REPO], env=goenv(), timeout=600)
        if rc != 0:
            raise BuildError("harness/apiprobe failed on %s:\n%s" % (REPO, (o + e)[-2000:]))
        info = json.loads(o.strip().splitlines()[-1])
    finally:
        shutil.rmtree(tmp, ignore_errors=True)
    _API_INFO[REPO] = info
    return info


def discover_api():
    """Exported functions of packages mg / sh / target in the tree under test that are not part of the known API
    (e.g. ["mg.PrintStats", "mg.Stats"]).  Empty on the unchanged tree."""
    return list(api_info().get("names") or [])


def build_depsrun(ctx):
    """Build harness/depsrun for the tree under test.  When the tree exports functions outside the known API, the file
    harness/apiprobe generates (func apiCalls: one call per discovered function) replaces the committed stub
    api_calls_gen.go - in the temporary build directory only - and the harness is built again with it."""
    binp = go_build_harness(ctx, "depsrun")
    if discover_api():
        dst = os.path.join(ctx.tmp, "src_depsrun")
        gen = os.path.join(dst, "api_calls_gen.go")
        info = api_info(gen_path=gen)
        ctx.coverage["API_calls_generated"] = {"called": info.get("called"), "skipped": info.get("skipped")}
        rc, o, e = sh(["go", "build", "-o", binp, "-tags", GUARD_TAG, "."], cwd=dst, env=goenv(), timeout=900)
        if rc != 0:
            # the synthesised calls do not compile: say so (evidence) and go on with the stub - never block the check
            ctx.coverage["API_calls_generated"]["build_error"] = (o + e)[-1500:]
            shutil.copy(os.path.join(VERIF, "harness", "depsrun", "api_calls_gen.go"), gen)
            rc, o, e = sh(["go", "build", "-o", binp, "-tags", GUARD_TAG, "."], cwd=dst, env=goenv(), timeout=900)
            if rc != 0:
                raise BuildError("go build of harness depsrun failed:\n%s" % (o + e)[-4000:])
    return binp


KNOB_VALUES = ["1", "true", "@FILE", "0", "1s", ",", "N0_1,", "_1", "all", "10ms", "x", "@DIR"]   # @FILE / @DIR: a writable path in a fresh temp directory (log, trace, report files)


def knob_value(v):
    """the concrete value of a knob: @FILE / @DIR stand for a writable file path / directory of their own"""
    if v in ("@FILE", "@DIR"):
        import tempfile
        d = tempfile.mkdtemp(prefix="vpknob_")
        return os.path.join(d, "knob.out") if v == "@FILE" else d
    return v


def run_program(binp, prog):
    env = dict(os.environ)
    env["MAGEFILE_VERBOSE"] = "1" if prog.get("verbose") else "0"
    # debug mode must not change what runs, in which order, or what is propagated (its own lines start with DEBUG:)
    env["MAGEFILE_DEBUG"] = "1" if prog.get("debug") else "0"
    tmpdirs = []
    for k, v in (prog.get("knobs") or {}).items():
        env[k] = knob_value(v)
        if v in ("@FILE", "@DIR"):
            tmpdirs.append(env[k] if v == "@DIR" else os.path.dirname(env[k]))
    rc, out, err = sh([binp], input=json.dumps(prog).encode(), env=env, timeout=60)
    for d in tmpdirs:
        shutil.rmtree(d, ignore_errors=True)
    trace = [json.loads(l) for l in out.splitlines() if l.startswith("{")]
    logs = {}
    for l in err.splitlines():
        if l.startswith("Running dependency: "):
            nm = l[len("Running dependency: "):].strip()
            logs[nm] = logs.get(nm, 0) + 1
    return {"rc": rc, "trace": trace, "logs": logs, "stderr": err[-2000:] if rc != 0 else ""}


# ---------------------------------------------------------------- direct oracles on an observed trace
class TraceView:
    """Facts read off an observed trace + the program text (no model involved)."""

    def __init__(self, prog, trace):
        self.prog, self.trace = prog, trace
        self.bs = {}     # k -> [indices]
        self.be = {}     # k -> (index, event)
        self.calls = {}  # (t,pc) -> dict(enter=i, end=i, ev=event)
        for i, e in enumerate(trace):
            if e["e"] == "bs":
                self.bs.setdefault(e["k"], []).append(i)
            elif e["e"] == "be":
                self.be.setdefault(e["k"], []).append((i, e))
            elif e["e"] == "ce":
                self.calls[(e["t"], e["pc"])] = {"enter": i, "end": None, "ev": None}
            elif e["e"] in ("cr", "cp"):
                self.calls.setdefault((e["t"], e["pc"]), {"enter": None})
                self.calls[(e["t"], e["pc"])].update(end=i, ev=e)

    def callspec(self, t, pc):
        if t[0] == "r":
            return self.prog["roots"][int(t[1:])]["calls"][pc]
        return self.prog["nodes"][int(t[1:])]["calls"][pc]

    def succeeded(self, k):
        l = self.be.get(k)
        return bool(l) and l[0][1]["r"] == "nil"

    def failed(self, k):
        l = self.be.get(k)
        return bool(l) and l[0][1]["r"] != "nil"

    def reached_members(self, t, pc):
        """dependencies the executed call (t,pc) gets to: all for par; for ser up to and incl. the first failed one."""
        c = self.callspec(t, pc)
        if c["style"] == "par":
            return list(c["deps"])
        out = []
        for d in c["deps"]:
            out.append(d)
            if not self.succeeded(d):
                break
        return out


def oracle_c01(prog, r):
    tv = TraceView(prog, r["trace"])
    bad = []
    reached = set()
    for (t, pc), info in tv.calls.items():
        if info["enter"] is not None:
            reached.update(tv.reached_members(t, pc))
    named = set()
    for (t, pc), info in tv.calls.items():
        if info["enter"] is not None:
            named.update(tv.callspec(t, pc)["deps"])
    for k in range(len(prog["nodes"])):
        n = len(tv.bs.get(k, []))
        if n > 1:
            bad.append("dependency %d ran %d times" % (k, n))
        if k in reached and n == 0:
            bad.append("dependency %d is named by an executed call but never ran" % k)
        if k not in named and n > 0:
            bad.append("dependency %d ran although no executed call names it" % k)
    if prog.get("verbose"):
        want = {}
        for k in tv.bs:
            nd = prog["nodes"][k]
            nm = display_name(nd["kind"], nd["slot"])
            want[nm] = want.get(nm, 0) + 1
        if want != r["logs"]:
            bad.append("'Running dependency:' lines %s, started dependencies %s" % (r["logs"], want))
    elif r["logs"]:
        bad.append("'Running dependency:' printed without -v")
    return bad


def below(tv, k, seen=None):
    """k and everything k waited on through its executed calls (transitively)."""
    seen = seen if seen is not None else set()
    if k in seen:
        return seen
    seen.add(k)
    for pc in range(len(tv.prog["nodes"][k]["calls"])):
        if ("k%d" % k, pc) in tv.calls and tv.calls[("k%d" % k, pc)]["enter"] is not None:
            for d in tv.reached_members("k%d" % k, pc):
                below(tv, d, seen)
    return seen


def oracle_c02(prog, r):
    tv = TraceView(prog, r["trace"])
    bad = []
    for (t, pc), info in tv.calls.items():
        if info["end"] is None:
            bad.append("call %s/%d never ended" % (t, pc))
            continue
        for d in tv.reached_members(t, pc):
            for k in below(tv, d):
                l = tv.be.get(k)
                if not l or l[0][0] > info["end"]:
                    bad.append("call %s/%d ended at %d before dependency %d (below %d) finished" % (t, pc, info["end"], k, d))
                # no event of k after the call's end
                for i, e in enumerate(r["trace"]):
                    if i > info["end"] and ((e["e"] in ("bs", "be") and e["k"] == k) or (e.get("t") == "k%d" % k)):
                        bad.append("event %d of dependency %d after call %s/%d ended" % (i, k, t, pc))
                        break
    return bad


def combine(codes):
    ex = 0
    for c in codes:
        if c == 0:
            continue
        ex = c if ex == 0 else (ex if ex == c else 1)
    return ex


def oracle_c03(prog, r):
    tv = TraceView(prog, r["trace"])
    bad = []
    for (t, pc), info in tv.calls.items():
        if info["end"] is None:
            continue
        members = tv.reached_members(t, pc)
        failed = [d for d in members if tv.failed(d)]
        ev = info["ev"]
        if ev["e"] == "cr" and failed:
            bad.append("call %s/%d returned normally although dependency %s failed" % (t, pc, failed))
        if ev["e"] == "cr" and any(not tv.succeeded(d) for d in members):
            bad.append("call %s/%d returned before all its dependencies succeeded" % (t, pc))
        if ev["e"] == "cp":
            if not failed:
                bad.append("call %s/%d panicked without a failed dependency" % (t, pc))
                continue
            # one report per goroutine: a dependency listed twice in a call reports twice
            c = tv.callspec(t, pc)
            mentions = [d for d in (c["deps"] if c["style"] == "par" else members) if tv.failed(d)]
            want_code = combine([tv.be[d][0][1]["code"] for d in mentions])
            want_toks = sorted(tok for d in mentions for tok in tv.be[d][0][1].get("toks", []))
            if ev["code"] != want_code:
                bad.append("call %s/%d: exit status %d, expected %d" % (t, pc, ev["code"], want_code))
            if sorted(ev.get("toks", [])) != want_toks:
                bad.append("call %s/%d: message tokens %s, expected %s" % (t, pc, ev.get("toks"), want_toks))
        # code after an unguarded failed call must not run: next call of the same task must not be entered
        if ev["e"] == "cp" and not tv.callspec(t, pc)["guarded"]:
            if (t, pc + 1) in tv.calls and tv.calls[(t, pc + 1)]["enter"] is not None:
                bad.append("task %s continued past failed call %d" % (t, pc))
    return bad


def oracle_c13(prog, r):
    tv = TraceView(prog, r["trace"])
    bad = []
    tr = r["trace"]
    # intervals of calls naming each dep, to attribute starts
    for (t, pc), info in tv.calls.items():
        c = tv.callspec(t, pc)
        if c["style"] != "ser" or info["enter"] is None or info["end"] is None:
            continue
        deps = c["deps"]
        for i, d in enumerate(deps):
            if d in deps[:i]:
                continue    # a repeated member: its single start belongs to its first position (once-only is C01's business)
            prev_ok = all(tv.succeeded(x) for x in deps[:i])
            starts = [s for s in tv.bs.get(d, []) if info["enter"] < s < info["end"]]
            # is the start attributable to this call? no other active call names d at that moment
            for s in starts:
                others = False
                for (t2, pc2), inf2 in tv.calls.items():
                    if (t2, pc2) == (t, pc) or inf2["enter"] is None:
                        continue
                    if inf2["enter"] < s and (inf2["end"] is None or inf2["end"] > s) and d in tv.callspec(t2, pc2)["deps"]:
                        others = True
                if others:
                    continue
                if not prev_ok:
                    bad.append("serial call %s/%d started member %d (position %d) after an earlier member failed" % (t, pc, d, i))
                for x in deps[:i]:
                    l = tv.be.get(x)
                    if not l or l[0][0] > s:
                        bad.append("serial call %s/%d started member %d before member %d finished" % (t, pc, d, x))
        # stop at first failure, carrying that failure only
        firstbad = next((d for d in deps if not tv.succeeded(d)), None)
        ev = info["ev"]
        if firstbad is None:
            if ev["e"] != "cr":
                bad.append("serial call %s/%d panicked although all members succeeded" % (t, pc))
        elif tv.failed(firstbad):
            be = tv.be[firstbad][0][1]
            if ev["e"] != "cp" or ev["code"] != be["code"] or sorted(ev.get("toks", [])) != sorted(be.get("toks", [])):
                bad.append("serial call %s/%d should fail with the failure of member %d only" % (t, pc, firstbad))
        # order of members' ends: each reached member ends before the next one reached starts or is skipped
        for i in range(1, len(deps)):
            if all(tv.succeeded(x) for x in deps[:i]):
                l = tv.be.get(deps[i])
                if not l or l[0][0] > info["end"]:
                    bad.append("serial call %s/%d ended before reached member %d finished" % (t, pc, deps[i]))
    return bad


ORACLES = {"C01": oracle_c01, "C02": oracle_c02, "C03": oracle_c03, "C13": oracle_c13}


def nontrivial(prog, trace):
    """fan-in >= 2 on some key among executed calls, or a failure, or a serial call with >= 2 members."""
    cnt = {}
    for nd in prog["nodes"] + prog["roots"]:
        for c in nd["calls"]:
            for d in set(c["deps"]):
                cnt[d] = cnt.get(d, 0) + 1
    return any(v >= 2 for v in cnt.values()) or any(e["e"] == "cp" for e in trace)


def run_engine_check(ctx, pid, nprog, serial_bias=False, extra_programs=None, oracles=None):
    """The common part: generate, run, oracle, trace acceptance. Returns list of (prog, result)."""
    oracles = oracles or [pid]
    binp = build_depsrun(ctx)
    rng = ctx.rng
    progs = list(extra_programs or [])
    # corpus first
    cdir = os.path.join(VERIF, "corpus", "deps")
    if os.path.isdir(cdir):
        for f in sorted(os.listdir(cdir)):
            if f.endswith(".json"):
                progs.append(json.load(open(os.path.join(cdir, f))))
    if ctx.replay and ctx.replay.get("case"):
        progs.insert(0, ctx.replay["case"])
    while len(progs) < nprog:
        big = (not ctx.quick) and rng.random() < 0.2
        progs.append(gen_program(rng, nmax=20 if big else 8, serial_bias=serial_bias))
    knobs = discover_knobs()
    ctx.coverage["unmodelled_MAGEFILE_variables_in_source"] = knobs
    ctx.coverage["unmodelled_API_in_source"] = discover_api()
    if knobs:
        # an environment variable the models do not know: every third program runs with it set to some plausible value
        for i, pr in enumerate(progs):
            if i % 3 == 1:
                k = knobs[(i // 3) % len(knobs)]
                pr["knobs"] = {k: KNOB_VALUES[(i // 3 // len(knobs)) % len(KNOB_VALUES)]}
    results = pmap(lambda p: run_program(binp, p), progs)
    items = []
    seen = set()
    nontriv = 0
    stats = {"events": 0, "panicking_calls": 0, "serial_calls": 0, "free_schedules": 0, "verbose": 0}
    bad_cases = []
    for prog, r in zip(progs, results):
        if r["rc"] != 0:
            ctx.violation({"kind": "harness-run-failed", "rc": r["rc"], "stderr": r["stderr"]}, case=prog,
                          found_input=(r["rc"] == 4))
            continue
        h = case_hash([prog, [(e["e"], e.get("k"), e.get("t"), e.get("pc")) for e in r["trace"]]])
        if h not in seen:
            seen.add(h)
            if nontrivial(prog, r["trace"]):
                nontriv += 1
        stats["events"] += len(r["trace"])
        stats["panicking_calls"] += sum(1 for e in r["trace"] if e["e"] == "cp")
        stats["serial_calls"] += sum(1 for nd in prog["nodes"] + prog["roots"] for c in nd["calls"] if c["style"] == "ser")
        stats["free_schedules"] += 1 if prog.get("free") else 0
        stats["verbose"] += 1 if prog.get("verbose") else 0
        for o in oracles:
            bad = ORACLES[o](prog, r)
            if bad:
                bad_cases.append((prog, r, o, bad))
        items.append(case_term(prog, r["trace"], r["logs"]))
    for prog, r, o, bad in bad_cases[:5]:
        ctx.violation({"kind": "oracle", "oracle": o, "clauses": bad[:6]}, case=prog, extra={"trace": r["trace"], "logs": r["logs"]})
    header = "From Mage Require Import Base.Strs Model.Deps Model.DepsReplay Run.eval_deps.\n"
    mism = ctx.coq_eval_shards("cases_deps", header, items, per_shard=max(10, (len(items) + NCPU - 1) // NCPU))
    ok_runs = [(p, r) for p, r in zip(progs, results) if r["rc"] == 0]
    if mism and not bad_cases:
        for idx, body in mism[:3]:
            p, r = ok_runs[idx]
            ctx.violation({"kind": "model-vs-implementation", "correspondence": "Model/DepsReplay.accepts (trace acceptance)",
                           "verdict": body[:300]}, case=p, extra={"trace": r["trace"], "logs": r["logs"]}, found_input=False)
    cov = ctx.coverage
    cov["evaluations"] = len(progs)
    cov["distinct_nontrivial"] = nontriv
    cov["traces_validated_against_impl"] = len(items) - len(mism)
    cov["rule"] = ("random acyclic dependency programs (2-8 nodes, up to 20 in thorough; 9 signature kinds incl. namespace methods and mg.F values; "
                   "1-3 root goroutines; par/serial, Bg/Fwd, guarded/unguarded calls; repeated mentions) x a random gate-priority script; "
                   "distinct = hash of (program, observed event order); non-trivial = some key named by >= 2 calls or some call panicked")
    cov.update(stats)
    cov["model_rejections"] = len(mism)
    for p, r in ok_runs[:2]:
        ctx.sample({"program": p, "trace": [ev_term(e) for e in r["trace"]], "logs": r["logs"]})
    return ok_runs
