"""Mechanical ties between the source text and the models (DESIGN.md section 3.5): literal data of
/repo's CURRENT source (string constants, the two supported-type tables) is read by harness/extract
on every run and Coq re-proves, by reflexivity in a generated file, that it equals what the models
assume (Model/Tables.v; Proof/Tables_facts.v ties those expectations to the models' own functions).
Fail-soft: an item the extractor cannot find is recorded (extracted: false) and the behavioural tie
alone decides."""
import os
from vlib import *

ITEMS = {
    # name: (mode, file relative to the repo, Go identifier, Tables.v expectation)
    "mainfile": ("const", "mage/main.go", "mainfile", "expected_mainfile"),
    "initFile": ("const", "mage/main.go", "initFile", "expected_initFile"),
    "MagefilesDirName": ("const", "mage/main.go", "MagefilesDirName", "expected_MagefilesDirName"),
    "importTag": ("const", "parse/parse.go", "importTag", "expected_importTag"),
    "magicRebuildKey": ("const", "mage/main.go", "magicRebuildKey", "expected_magicRebuildKey"),
    "parse.argTypes": ("map", "parse/parse.go", "argTypes", "expected_parse_argTypes"),
    "mg.argTypes": ("map", "mg/fn.go", "argTypes", "expected_mg_argTypes"),
}


def _unq(s):
    import json
    return json.loads(s)          # the extractor prints Go-quoted ASCII strings; JSON reads them


def tables_tie(ctx, names):
    ex = go_build_harness(ctx, "extract", tags=None)
    defs, lemmas, done = [], [], []
    for n in names:
        mode, rel, ident, expect = ITEMS[n]
        rc, out, err = sh([ex, mode, os.path.join(REPO, rel), ident])
        if rc != 0:
            ctx.notes.append("harness/extract could not read %s (%s): only the behavioural tie applies" % (n, err.strip()[:160]))
            ctx.coverage.setdefault("extracted", {})[n] = False
            continue
        cn = "x_" + re.sub(r"\W", "_", n)
        if mode == "const":
            term = coq_str(_unq(out.strip()))
            ty = "string"
        else:
            rows = [l.split("\t") for l in out.splitlines() if l.strip()]
            term = coq_list(["(%s, %s)" % (coq_str(_unq(k)), coq_str(_unq(v))) for k, v in rows])
            ty = "list (string * string)"
        defs.append("Definition %s : %s := %s." % (cn, ty, term))
        lemmas.append("Lemma %s_agrees : %s = Tables.%s. Proof. reflexivity. Qed." % (cn, cn, expect))
        done.append(n)
        ctx.coverage.setdefault("extracted", {})[n] = True
    if not done:
        return
    ctx.obligations += len(done)
    text = "From Mage Require Import Base.Strs.\nFrom Mage Require Model.Tables Proof.Tables_facts.\n" + "\n".join(defs) + "\n" + "\n".join(lemmas) + "\n"
    ok, log = coq_make(targets=["Proof/Tables_facts.vo"])
    rc, log2 = ctx.coq_eval("extracted_tables_%s" % ctx.pid, text) if ok else (1, log)
    if rc == 0:
        ctx.discharged += len(done)
        ctx.trusted_base.append("harness/extract (literal data of the source): %s re-proved equal to Model/Tables.v on this run" % ", ".join(done))
    else:
        ctx.violation({"kind": "theorem-no-longer-checks", "theorem": "extracted literal data = Model/Tables.v (%s)" % ", ".join(done),
                       "extracted": defs, "log": log2[-1200:]}, found_input=False)


# ======================================================================================= functions
# fn_tie: pure functions of /repo's CURRENT source are translated to Gallina by harness/extract (mode
# `fn`, tools/notes/Translator.md) on every run and Coq proves, for ALL inputs, that the translated
# function equals the hand-written model function (or has the characterisation the property relies on).
#   translator says no (status 3)          -> note, coverage "untranslatable: ...", behavioural tie decides
#   proof goes through                     -> obligations discharged, coverage "proved"
#   proof fails, grid finds a differing input -> VIOLATION with that input (the translated function IS the
#                                             code); replayed on the real code where it is exported
#   proof fails, no differing input        -> note, coverage "unproved-no-diff", behavioural tie decides
FN_HEADER = """From Mage Require Import Base.Strs Base.GoLib Proof.GoLib_facts Run.eval_GoLib.
"""

_PARSE_NAMES = ("Function.TargetName,Function.ID,Functions.Less,Imports.Less,"
                "+Function.PkgAlias,+Function.Receiver,+Function.Name,+Function.ImportPath,+Import.UniqueName")

_TO_DUPES = """Definition to_dupes (f : x_Function) : Dupes.func :=
  {| Dupes.f_alias := x_Function_PkgAlias f; Dupes.f_path := x_Function_ImportPath f;
     Dupes.f_recv := x_Function_Receiver f; Dupes.f_name := x_Function_Name f |}.
"""
_TO_GEN = """Definition to_gen (f : x_Function) : Gen.func :=
  {| Gen.fn_alias := x_Function_PkgAlias f; Gen.fn_pkg := ""; Gen.fn_path := x_Function_ImportPath f;
     Gen.fn_recv := x_Function_Receiver f; Gen.fn_name := x_Function_Name f; Gen.fn_body := "" |}.
Definition to_gen_import (m : x_Import) : Gen.import :=
  {| Gen.i_alias := ""; Gen.i_name := ""; Gen.i_uname := x_Import_UniqueName m; Gen.i_path := ""; Gen.i_funcs := [] |}.
"""
_TO_ITAG = """Definition to_itag (f : x_Function) : ImportTag.func :=
  {| ImportTag.f_alias := x_Function_PkgAlias f; ImportTag.f_path := x_Function_ImportPath f;
     ImportTag.f_recv := x_Function_Receiver f; ImportTag.f_name := x_Function_Name f |}.
"""
_FGRID = 'Definition grid := words [""; "a"; "B"] x_Function_arity.\n'
_LESS_GEN_PROOF = """Theorem x_TargetName_Gen : forall f, x_Function_TargetName f = Gen.target_name (to_gen f).
Proof. intros f. unfold x_Function_TargetName, Gen.target_name, to_gen, strings_Join, Gen.nonempty. go_record f. go_auto. Qed.
"""

_ENV_REQ = """From Mage Require Import Model.EnvSpec Proof.EnvSpec_facts.
From Mage Require Model.Flags Model.Constraints.
From Coq Require Import Permutation.
"""

# x_SplitEnv / x_joinEnv are what Model/EnvSpec.v says (the loop with its early return; the fold over an arbitrary order)
_SPLITENV_PROOF = """Theorem x_SplitEnv_spec : forall env,
  match env_split env [] with
  | Some m => x_SplitEnv env = (m, None)
  | None => fst (x_SplitEnv env) = [] /\\ snd (x_SplitEnv env) <> None
  end.
Proof.
  intros env. unfold x_SplitEnv. cbv zeta. go_returned.
  match goal with |- context [fold_left ?f env (?n, _)] =>
    assert (G : forall env (out : list (string * string)),
      match env_split env out with
      | Some m => fold_left f env (n, out) = (n, m)
      | None => exists r st, fold_left f env (n, out) = (Some r, st) /\\ fst r = [] /\\ snd r <> None
      end)
  end.
  { clear env. induction env as [|s env IH]; intros out; cbn [fold_left env_split]; [reflexivity|].
    change "="%string with (String eq_byte EmptyString). rewrite ?strings_SplitN_2_char.
    destruct (split_first eq_byte s) as [[k v]|]; cbn.
    - apply IH.
    - rewrite Hret. eexists _, _. repeat split; cbn; try reflexivity; discriminate. }
  specialize (G env []). destruct (env_split env []).
  - rewrite G. reflexivity.
  - destruct G as (r & st & -> & ? & ?). auto.
Qed.
Theorem x_joinEnv_spec : forall ord m, x_joinEnv ord m = map join_kv (ord m).
Proof.
  intros ord m. unfold x_joinEnv. cbv zeta. try go_loops. go_norm.
  induction (ord m) as [|[k v] l IH]; cbn [flat_map map app fold_left]; [reflexivity|].
  rewrite ?IH. unfold join_kv. cbn [fst snd]. go_norm. reflexivity.
Qed.
"""

_GOOS_PROOF = """Theorem x_EnvWithGOOS_spec : forall ord environ rt_goarch rt_goos goos goarch,
  match env_split environ [] with
  | Some m => x_EnvWithGOOS ord environ rt_goarch rt_goos goos goarch = (x_joinEnv ord (goos_env m rt_goos rt_goarch goos goarch), None)
  | None => fst (x_EnvWithGOOS ord environ rt_goarch rt_goos goos goarch) = [] /\\ snd (x_EnvWithGOOS ord environ rt_goarch rt_goos goos goarch) <> None
  end.
Proof.
  intros. unfold x_EnvWithGOOS, goos_env. pose proof (x_SplitEnv_spec environ) as S.
  destruct (env_split environ []) as [m|].
  - rewrite S. cbn [is_nil negb]. go_cases; reflexivity.
  - destruct (x_SplitEnv environ) as [m e]. cbn [fst snd] in S. destruct S as [-> S].
    destruct e; [|congruence]. cbn. split; [reflexivity|discriminate].
Qed.
Theorem x_EnvWithCurrentGOOS_spec : forall ord environ rt_goarch rt_goos,
  match env_split environ [] with
  | Some m => x_EnvWithCurrentGOOS ord environ rt_goarch rt_goos = (x_joinEnv ord (goos_env m rt_goos rt_goarch "" ""), None)
  | None => fst (x_EnvWithCurrentGOOS ord environ rt_goarch rt_goos) = [] /\\ snd (x_EnvWithCurrentGOOS ord environ rt_goarch rt_goos) <> None
  end.
Proof.
  intros. unfold x_EnvWithCurrentGOOS, goos_env. pose proof (x_SplitEnv_spec environ) as S.
  destruct (env_split environ []) as [m|].
  - rewrite S. cbn [is_nil negb String.eqb]. go_cases; reflexivity.
  - destruct (x_SplitEnv environ) as [m e]. cbn [fst snd] in S. destruct S as [-> S].
    destruct e; [|congruence]. cbn. split; [reflexivity|discriminate].
Qed.
"""

_ENV_GRID = """Definition entries := ["A=1"; "B="; "A=2"; "C=x=y"; "=v"; "noeq"; ""; "D= a b"; "GOOS=plan9"].
Definition show_split (r : gomap string * option string) : list string :=
  (if is_nil (snd r) then "ok" else "error") :: map join_kv (fst r).
Definition show_spec (r : option (gomap string)) : list string :=
  match r with Some m => "ok" :: map join_kv m | None => ["error"] end.
"""
_GOOS_GRID = """Definition envs := words_upto entries 2.
Definition grid := pairs envs (pairs [""; "linux"] [""; "arm"]).
Definition show_env (r : list string * option string) : list string := (if is_nil (snd r) then "ok" else "error") :: sort_Strings (fst r).   (* the order of the list is Go's map order: compared as a multiset *)
Definition D1 := diffs (list_eqb String.eqb) (fun x => [["EnvWithGOOS"]; fst x; [fst (snd x)]; [snd (snd x)]]) (fun r => r)
  (fun x => show_env (x_EnvWithGOOS (fun m => m) (fst x) "rtarch" "rtos" (fst (snd x)) (snd (snd x))))
  (fun x => match env_split (fst x) [] with Some m => "ok" :: sort_Strings (map join_kv (goos_env m "rtos" "rtarch" (fst (snd x)) (snd (snd x)))) | None => ["error"] end) grid.
Definition D2 := diffs (list_eqb String.eqb) (fun x => [["EnvWithCurrentGOOS"]; fst x; [""]; [""]]) (fun r => r)
  (fun x => show_env (x_EnvWithCurrentGOOS (fun m => m) (fst x) "rtarch" "rtos"))
  (fun x => match env_split (fst x) [] with Some m => "ok" :: sort_Strings (map join_kv (goos_env m "rtos" "rtarch" "" "")) | None => ["error"] end)
  (map (fun e => (e, ("", ""))) envs).
Definition D := Eval vm_compute in firstn 3 (D1 ++ D2)%list.
"""

_DYN_GRID = """Definition codes := [0; 1; 2; 7; 255; -1]%Z.
Definition grid : list dynerr := ([DNil; DOther] ++ map DExitStatus codes ++ map (fun c => DExitError true (Some c)) codes
  ++ map (fun c => DExitError false (Some c)) codes ++ [DExitError true None; DExitError false None])%list.
Definition show_dyn (e : dynerr) : list string :=
  match e with
  | DNil => ["nil"] | DOther => ["some other error"]
  | DExitStatus c => ["has ExitStatus()"; show_Z c]
  | DExitError x s => ["*exec.ExitError"; if x then "Exited" else "not Exited"; match s with Some c => show_Z c | None => "Sys() without ExitStatus()" end]
  end.
"""

# name: file, names given to the translator, Go functions whose text goes into a replay, Coq requires,
#       definitions shared by proof and search, the theorems (name list must match the text), the grid search
#       (must define D : the first differing inputs as (arguments, translated result, model result), N : grid size),
#       model term (for the evidence), replay op of harness/purefn (None: the function is not exported)
FN_ITEMS = {
    "joinArgs": {
        "file": "sh/cmd.go", "names": "joinArgs", "src": ["joinArgs"],
        "model": "Model/Slices.joinArgs: a fresh array holding contents a ++ contents b",
        "requires": "From Mage Require Model.Slices Proof.Slices_facts.\n", "defs": "",
        "theorems": ["x_joinArgs_value", "x_joinArgs_model"],
        "agree": """Theorem x_joinArgs_value : forall a b, x_joinArgs a b = (a ++ b)%list.
Proof. intros; unfold x_joinArgs; try go_loops; go_norm; try reflexivity. Qed.
Import Slices Slices_facts.
(* the heap model's joinArgs (Proof/Slices_facts.wp_joinArgs) builds exactly the translated function's value *)
Theorem x_joinArgs_model : forall sh own a b (Q : pheap -> slice -> Prop),
  s_id a < length sh -> s_id b < length sh ->
  (forall o, length sh <= o -> plookup own o = None ->
     Q ((o, x_joinArgs (contents sh a) (contents sh b)) :: own)
       {| s_id := o; s_off := 0; s_len := s_len a + s_len b; s_cap := s_len a + s_len b |}) ->
  wp sh (Slices.joinArgs a b) own Q.
Proof. intros sh own a b Q Ha Hb H. apply wp_joinArgs; auto; intros o Ho Hn; rewrite <- x_joinArgs_value; auto. Qed.
""",
        "search": """Definition pool : list (list string) := words_upto ["x"; "y"; "z"] 2.
Definition grid := pairs pool pool.
Definition D := Eval vm_compute in firstn 3 (diffs (list_eqb String.eqb) (fun ab => [fst ab; snd ab]) (fun r => r)
  (fun ab => x_joinArgs (fst ab) (snd ab)) (fun ab => (fst ab ++ snd ab)%list) grid).
""",
        "args": ["a", "b"], "replay": "joinArgs"},
    "TargetName": {
        "file": "parse/parse.go", "names": _PARSE_NAMES, "src": ["Function.TargetName", "Function.ID"],
        "model": "Model/Dupes.target_name, Model/Dupes.fid (C07/C04; Bridge_C07_C04 feeds them to Model/Dispatch)",
        "requires": "From Mage Require Model.Dupes.\n", "defs": _TO_DUPES,
        "theorems": ["x_TargetName_Dupes", "x_ID_Dupes"],
        "agree": """Theorem x_TargetName_Dupes : forall f, x_Function_TargetName f = Dupes.target_name (to_dupes f).
Proof. intros f. unfold x_Function_TargetName, Dupes.target_name, to_dupes, strings_Join, Dupes.is_empty. go_record f. go_auto. Qed.
Theorem x_ID_Dupes : forall f, x_Function_ID f = Dupes.fid (to_dupes f).
Proof. intros f. unfold x_Function_ID, Dupes.fid, to_dupes, Dupes.is_empty. go_record f. go_auto. Qed.
""",
        "search": _FGRID + """Definition D1 := diffs String.eqb (fun ss => [["TargetName"]; ss]) show_str
  (fun ss => x_Function_TargetName (x_Function_mk ss)) (fun ss => Dupes.target_name (to_dupes (x_Function_mk ss))) grid.
Definition D2 := diffs String.eqb (fun ss => [["ID"]; ss]) show_str
  (fun ss => x_Function_ID (x_Function_mk ss)) (fun ss => Dupes.fid (to_dupes (x_Function_mk ss))) grid.
Definition D := Eval vm_compute in firstn 3 (D1 ++ D2)%list.
""",
        "args": ["op", "Function"], "replay": "method"},
    "TargetName/Gen": {
        "file": "parse/parse.go", "names": _PARSE_NAMES, "src": ["Function.TargetName"],
        "model": "Model/Gen.target_name (C18)",
        "requires": "From Mage Require Model.Gen.\n", "defs": _TO_GEN,
        "theorems": ["x_TargetName_Gen"],
        "agree": _LESS_GEN_PROOF,
        "search": _FGRID + """Definition D := Eval vm_compute in firstn 3 (diffs String.eqb (fun ss => [["TargetName"]; ss]) show_str
  (fun ss => x_Function_TargetName (x_Function_mk ss)) (fun ss => Gen.target_name (to_gen (x_Function_mk ss))) grid).
""",
        "args": ["op", "Function"], "replay": "method"},
    "TargetName/Classify": {
        "file": "parse/parse.go", "names": _PARSE_NAMES, "src": ["Function.TargetName"],
        "model": "Model/Classify.targetName (C06; PkgAlias empty)",
        "requires": "From Mage Require Model.Classify.\n",
        "defs": """Definition to_classify (f : x_Function) : Classify.function :=
  {| Classify.f_name := x_Function_Name f; Classify.f_recv := x_Function_Receiver f; Classify.f_iserr := false;
     Classify.f_isctx := false; Classify.f_args := []; Classify.f_comment := ""; Classify.f_synopsis := "" |}.
""",
        "theorems": ["x_TargetName_Classify"],
        "agree": """Theorem x_TargetName_Classify : forall (f : x_Function) (c : Classify.function),
  x_Function_PkgAlias f = "" -> x_Function_Receiver f = Classify.f_recv c -> x_Function_Name f = Classify.f_name c ->
  x_Function_TargetName f = Classify.targetName c.
Proof.
  intros f c. unfold x_Function_TargetName, Classify.targetName, strings_Join. go_record f.
  destruct c; cbn [Classify.f_recv Classify.f_name]. intros -> -> ->. go_auto.
Qed.
""",
        "search": _FGRID + """Definition D := Eval vm_compute in firstn 3 (diffs String.eqb (fun ss => [["TargetName"]; ss]) show_str
  (fun ss => x_Function_TargetName (x_Function_mk ss)) (fun ss => Classify.targetName (to_classify (x_Function_mk ss)))
  (filter (fun ss => String.eqb (x_Function_PkgAlias (x_Function_mk ss)) "") grid)).
""",
        "args": ["op", "Function"], "replay": "method"},
    "TargetName/ImportTag": {
        "file": "parse/parse.go", "names": _PARSE_NAMES, "src": ["Function.TargetName"],
        "model": "Model/ImportTag.target_name (C19)",
        "requires": "From Mage Require Model.ImportTag.\n", "defs": _TO_ITAG,
        "theorems": ["x_TargetName_ImportTag"],
        "agree": """Theorem x_TargetName_ImportTag : forall f, x_Function_TargetName f = ImportTag.target_name (to_itag f).
Proof. intros f. unfold x_Function_TargetName, ImportTag.target_name, to_itag, strings_Join, ImportTag.is_empty. go_record f. go_auto. Qed.
""",
        "search": _FGRID + """Definition D := Eval vm_compute in firstn 3 (diffs String.eqb (fun ss => [["TargetName"]; ss]) show_str
  (fun ss => x_Function_TargetName (x_Function_mk ss)) (fun ss => ImportTag.target_name (to_itag (x_Function_mk ss))) grid).
""",
        "args": ["op", "Function"], "replay": "method"},
    "Functions.Less": {
        "file": "parse/parse.go", "names": _PARSE_NAMES, "src": ["Functions.Less", "Function.TargetName"],
        "model": "Model/Gen.key_leb Gen.target_name, the order sort_by sorts td_funcs with (strict part)",
        "requires": "From Mage Require Model.Gen.\n", "defs": _TO_GEN,
        "theorems": ["x_TargetName_Gen", "x_Functions_Less_Gen"],
        "agree": _LESS_GEN_PROOF + """Theorem x_Functions_Less_Gen : forall s i j,
  x_Functions_Less s i j = negb (Gen.key_leb Gen.target_name (to_gen (index_ x_Function_zero s j)) (to_gen (index_ x_Function_zero s i))).
Proof.
  intros. unfold x_Functions_Less, Gen.key_leb. rewrite <- ?x_TargetName_Gen. try apply sltb_negb_leb.
Qed.
""",
        "search": """Definition pool := words [""; "a"; "b"] x_Function_arity.
Definition grid := pairs (pairs pool pool) (pairs [0; 1]%Z [0; 1]%Z).
Definition D := Eval vm_compute in firstn 3 (diffs Bool.eqb
  (fun x => [fst (fst x); snd (fst x); [show_Z (fst (snd x))]; [show_Z (snd (snd x))]]) show_bool
  (fun x => x_Functions_Less [x_Function_mk (fst (fst x)); x_Function_mk (snd (fst x))] (fst (snd x)) (snd (snd x)))
  (fun x => let s := [x_Function_mk (fst (fst x)); x_Function_mk (snd (fst x))] in
            negb (Gen.key_leb Gen.target_name (to_gen (index_ x_Function_zero s (snd (snd x)))) (to_gen (index_ x_Function_zero s (fst (snd x))))))
  grid).
""",
        "args": ["Function", "Function", "i", "j"], "replay": "Functions.Less"},
    "Imports.Less": {
        "file": "parse/parse.go", "names": _PARSE_NAMES, "src": ["Imports.Less"],
        "model": "Model/Gen.key_leb Gen.i_uname, the order sort_by sorts td_imports with (strict part)",
        "requires": "From Mage Require Model.Gen.\n", "defs": _TO_GEN,
        "theorems": ["x_Imports_Less_Gen"],
        "agree": """Theorem x_Imports_Less_Gen : forall s i j,
  x_Imports_Less s i j = negb (Gen.key_leb Gen.i_uname (to_gen_import (index_ x_Import_zero s j)) (to_gen_import (index_ x_Import_zero s i))).
Proof.
  intros. unfold x_Imports_Less, Gen.key_leb, to_gen_import; cbn [Gen.i_uname]. try apply sltb_negb_leb.
Qed.
""",
        "search": """Definition pool := words [""; "a"; "b"; "ab"; "B"] x_Import_arity.
Definition grid := pairs (pairs pool pool) (pairs [0; 1]%Z [0; 1]%Z).
Definition D := Eval vm_compute in firstn 3 (diffs Bool.eqb
  (fun x => [fst (fst x); snd (fst x); [show_Z (fst (snd x))]; [show_Z (snd (snd x))]]) show_bool
  (fun x => x_Imports_Less [x_Import_mk (fst (fst x)); x_Import_mk (snd (fst x))] (fst (snd x)) (snd (snd x)))
  (fun x => let s := [x_Import_mk (fst (fst x)); x_Import_mk (snd (fst x))] in
            negb (Gen.key_leb Gen.i_uname (to_gen_import (index_ x_Import_zero s (snd (snd x)))) (to_gen_import (index_ x_Import_zero s (fst (snd x))))))
  grid).
""",
        "args": ["Import", "Import", "i", "j"], "replay": "Imports.Less"},
    "filter": {
        "file": "mage/main.go", "names": "filter", "src": ["filter"],
        "model": "List.filter (String.prefix prefix) list (no hand model: the debug line of mage.RunCompiled)",
        "advisory": True,    # only feeds a -debug line: a difference is recorded, never a violation of C10
        "requires": "", "defs": "",
        "theorems": ["x_filter_spec"],
        "agree": """Theorem x_filter_spec : forall l p, x_filter l p = List.filter (fun s => String.prefix p s) l.
Proof.
  intros l p. unfold x_filter. try go_loops. go_norm. unfold strings_HasPrefix. cbn [app].
  induction l as [|s l IH]; cbn [flat_map filter fold_left]; [reflexivity|].
  go_cases; go_norm; cbn [app]; rewrite ?IH; try reflexivity; try congruence.
Qed.
""",
        "search": """Definition lists := (words_upto ["ab"; "a"; "b"; ""; "ba"] 2 ++ [["a"; "ab"; "b"; "abc"; ""; "ba"; "a"]])%list.
Definition grid := pairs lists [""; "a"; "ab"; "b"; "c"].
Definition D := Eval vm_compute in firstn 3 (diffs (list_eqb String.eqb) (fun x => [fst x; [snd x]]) (fun r => r)
  (fun x => x_filter (fst x) (snd x)) (fun x => List.filter (fun s => String.prefix (snd x) s) (fst x)) grid).
""",
        "args": ["list", "prefix"], "replay": None},
    "displayName": {
        "file": "mg/deps.go", "names": "displayName", "src": ["displayName"],
        "model": "characterisation: \"main.X\" with no further \".\" -> \"X\", anything else unchanged (no hand model)",
        "requires": "",
        "defs": """Definition nodot (s : string) : Prop := has_char "."%char s = false.
Definition displayName_spec (name : string) : string :=
  match split_char "."%char name with
  | [a; b] => if String.eqb a "main" then b else name
  | _ => name
  end.
""",
        "theorems": ["x_displayName_pieces", "x_displayName_main", "x_displayName_other"],
        "agree": """(* in terms of the pieces strings.Split cuts *)
Theorem x_displayName_pieces : forall name, x_displayName name = displayName_spec name.
Proof.
  intros name. unfold x_displayName, displayName_spec. cbv zeta.
  change "."%string with (String "."%char EmptyString). rewrite ?strings_Split_char.
  destruct (split_char "."%char name) as [|a [|b [|c l]]]; try reflexivity;
    try (cbn; go_cases; reflexivity);
    try (rewrite !len_cons; pose proof (len_nonneg l); go_cases; try reflexivity; lia).
Qed.
Theorem x_displayName_main : forall x, nodot x -> x_displayName ("main." ++ x)%string = x.
Proof.
  intros x H. rewrite x_displayName_pieces. unfold displayName_spec.
  assert (E : split_char "."%char ("main." ++ x)%string = ["main"; x]) by (apply split_char_two; auto).
  rewrite E. reflexivity.
Qed.
Theorem x_displayName_other : forall name, (forall x, nodot x -> name <> ("main." ++ x)%string) -> x_displayName name = name.
Proof.
  intros name H. rewrite x_displayName_pieces. unfold displayName_spec.
  destruct (split_char "."%char name) as [|a [|b [|c l]]] eqn:E; try reflexivity.
  destruct (String.eqb_spec a "main"); [|reflexivity]. subst a.
  apply split_char_two in E as (-> & _ & Hb). exfalso. exact (H b Hb eq_refl).
Qed.
""",
        "search": """Definition grid := ["main.X"; "main"; "main."; ".main"; "main.a.b"; "pkg.X"; ""; "X"; "a.main"; "main.main"; "mainX.Y";
  "github.com/x/y.Z"; "."; ".."; "main.."; "Main.X"; "main.x.y.z"; "x.main.y"; ".X"; "main.Ns.Build"; "main.(T).M"; "a.b"].
Definition D := Eval vm_compute in firstn 3 (diffs String.eqb (fun x => [[x]]) show_str x_displayName displayName_spec grid).
""",
        "args": ["name"], "replay": None},

    # ---------------------------------------------------------------- maps, several results, process environment
    "SplitEnv": {
        "file": "internal/run.go", "names": "SplitEnv,joinEnv", "src": ["SplitEnv", "joinEnv"],
        "model": "Model/EnvSpec.env_split / join_kv, read in C11's environment model (Model/Flags.lookup: the last entry of a name wins; Flags.dedup_env: what os/exec keeps)",
        "requires": _ENV_REQ, "defs": "",
        "theorems": ["x_SplitEnv_spec", "x_joinEnv_spec", "x_SplitEnv_map", "x_SplitEnv_error", "x_joinEnv_SplitEnv_last_wins", "x_joinEnv_SplitEnv_perm"],
        "agree": _SPLITENV_PROOF + """
(* a well-formed list: no error; for every name the value of its LAST entry, cut at the FIRST '=' (values with
   '=' or blanks and empty values intact) *)
Theorem x_SplitEnv_map : forall env, Forall (fun s => well_formed s = true) env ->
  snd (x_SplitEnv env) = None /\\ map_wf (fst (x_SplitEnv env)) /\\
  forall k, map_find (fst (x_SplitEnv env)) k = Flags.lookup k (env_pairs env).
Proof.
  intros env F. pose proof (x_SplitEnv_spec env) as S. apply (env_split_Some env []) in F as [m E].
  rewrite E in S. rewrite S. cbn [fst snd]. repeat split.
  - eapply env_split_wf; eauto. apply map_wf_nil.
  - intros k. rewrite (env_split_find _ _ _ E k). cbn. now destruct (Flags.lookup k (env_pairs env)).
Qed.
(* the error case: exactly the lists with an entry without '=' *)
Theorem x_SplitEnv_error : forall env, snd (x_SplitEnv env) <> None <-> Exists (fun s => well_formed s = false) env.
Proof.
  intros env. pose proof (x_SplitEnv_spec env) as S. rewrite <- (env_split_None env []).
  destruct (env_split env []); [rewrite S; cbn; split; congruence|]. destruct S as [_ S]. tauto.
Qed.
(* joinEnv(SplitEnv(env)), FOR ALL iteration orders of the map: with duplicate names the last entry wins (what
   os/exec would keep), with distinct names it is a permutation of env *)
Theorem x_joinEnv_SplitEnv_last_wins : forall ord env, is_order ord -> Forall (fun s => well_formed s = true) env ->
  Permutation (x_joinEnv ord (fst (x_SplitEnv env))) (map join_kv (Flags.dedup_env (env_pairs env))).
Proof.
  intros ord env O F. pose proof (x_SplitEnv_spec env) as S. apply (env_split_Some env []) in F as [m E].
  rewrite E in S. rewrite S, x_joinEnv_spec. cbn [fst].
  eapply Permutation_trans; [apply Permutation_map, O|]. apply Permutation_map. now apply env_split_last_wins.
Qed.
Theorem x_joinEnv_SplitEnv_perm : forall ord env, is_order ord -> Forall (fun s => well_formed s = true) env ->
  NoDup (map fst (env_pairs env)) -> Permutation (x_joinEnv ord (fst (x_SplitEnv env))) env.
Proof.
  intros ord env O F N. pose proof (x_SplitEnv_spec env) as S. apply (env_split_Some env []) in F as [m E].
  rewrite E in S. rewrite S, x_joinEnv_spec. cbn [fst].
  eapply Permutation_trans; [apply Permutation_map, O|]. now apply env_join_split_perm.
Qed.
""",
        "search": _ENV_GRID + """Definition grid := words_upto entries 3.
Definition D1 := diffs (list_eqb String.eqb) (fun env => [["SplitEnv"]; env]) (fun r => r)
  (fun env => show_split (x_SplitEnv env)) (fun env => show_spec (env_split env [])) grid.
Definition D2 := diffs (list_eqb String.eqb) (fun env => [["joinEnv(SplitEnv), entries sorted for the comparison (the order of the result is Go's map order)"]; env]) (fun r => r)
  (fun env => sort_Strings (x_joinEnv (@rev _) (fst (x_SplitEnv env)))) (fun env => match env_split env [] with Some m => sort_Strings (map join_kv m) | None => [] end) grid.
Definition D := Eval vm_compute in firstn 3 (D1 ++ D2)%list.
""",
        "args": ["op", "env"], "replay": None},
    "EnvWithGOOS": {
        "file": "internal/run.go", "names": "SplitEnv,joinEnv,EnvWithGOOS!os_Environ!runtime_GOARCH!runtime_GOOS,EnvWithCurrentGOOS!os_Environ!runtime_GOARCH!runtime_GOOS", "src": ["EnvWithGOOS", "EnvWithCurrentGOOS", "SplitEnv", "joinEnv"],
        "model": "Model/EnvSpec.goos_env over env_split, read in C11's environment model (Model/Flags.lookup); os.Environ(), runtime.GOOS, runtime.GOARCH are parameters",
        "requires": _ENV_REQ, "defs": "",
        "theorems": ["x_SplitEnv_spec", "x_joinEnv_spec", "x_EnvWithGOOS_spec", "x_EnvWithCurrentGOOS_spec", "x_EnvWithGOOS_carries"],
        "agree": _SPLITENV_PROOF + _GOOS_PROOF + """
(* FOR ALL iteration orders: GOOS / GOARCH are the arguments (the runtime's when empty), every other variable
   keeps the value the caller's environment gives it, every name occurs once *)
Theorem x_EnvWithGOOS_carries : forall ord environ rt_goarch rt_goos goos goarch, is_order ord ->
  Forall (fun s => well_formed s = true) environ ->
  let r := x_EnvWithGOOS ord environ rt_goarch rt_goos goos goarch in
  snd r = None /\\
  Flags.lookup "GOOS" (env_pairs (fst r)) = Some (if String.eqb goos "" then rt_goos else goos) /\\
  Flags.lookup "GOARCH" (env_pairs (fst r)) = Some (if String.eqb goarch "" then rt_goarch else goarch) /\\
  (forall k, k <> "GOOS" -> k <> "GOARCH" -> Flags.lookup k (env_pairs (fst r)) = Flags.lookup k (env_pairs environ)) /\\
  NoDup (map fst (env_pairs (fst r))) /\\ Forall (fun s => well_formed s = true) (fst r).
Proof.
  intros ord environ a b goos goarch O F r. subst r.
  pose proof (x_EnvWithGOOS_spec ord environ a b goos goarch) as S. apply (env_split_Some environ []) in F as [m E].
  rewrite E in S. rewrite S. cbn [fst snd]. split; [reflexivity|].
  apply (goos_env_carries environ m); auto. rewrite x_joinEnv_spec. apply Permutation_map, O.
Qed.
""",
        "search": _ENV_GRID + _GOOS_GRID,
        "args": ["op", "environ", "goos", "goarch"], "replay": None},
    "EnvWithGOOS/Constraints": {
        "file": "internal/run.go", "names": "SplitEnv,joinEnv,EnvWithGOOS!os_Environ!runtime_GOARCH!runtime_GOOS,EnvWithCurrentGOOS!os_Environ!runtime_GOARCH!runtime_GOOS", "src": ["EnvWithGOOS", "SplitEnv", "joinEnv"],
        "model": "Model/Constraints.splitEnv / envWithGOOS (C10's hand model; its theorems hold for every permutation of the list)",
        "requires": _ENV_REQ, "defs": "",
        "theorems": ["x_SplitEnv_spec", "x_joinEnv_spec", "x_EnvWithGOOS_spec", "x_EnvWithCurrentGOOS_spec", "x_SplitEnv_Constraints", "x_EnvWithGOOS_Constraints"],
        "agree": _SPLITENV_PROOF + _GOOS_PROOF + """
Theorem x_SplitEnv_Constraints : forall env,
  match Constraints.splitEnv env with
  | Some cm => snd (x_SplitEnv env) = None /\\ forall k, Constraints.mget k cm = map_find (fst (x_SplitEnv env)) k
  | None => snd (x_SplitEnv env) <> None
  end.
Proof.
  intros env. pose proof (x_SplitEnv_spec env) as S. pose proof (splitEnv_agrees env) as A.
  destruct (Constraints.splitEnv env) as [cm|]; destruct (env_split env []) as [m|]; try contradiction.
  - rewrite S. cbn [fst snd]. auto.
  - tauto.
Qed.
Theorem x_EnvWithGOOS_Constraints : forall ord su goos goarch, is_order ord ->
  let r := x_EnvWithGOOS ord (Constraints.su_environ su) (Constraints.su_hostarch su) (Constraints.su_hostos su) goos goarch in
  match Constraints.envWithGOOS su goos goarch with
  | Some env' => snd r = None /\\ Permutation (fst r) env'
  | None => snd r <> None
  end.
Proof.
  intros ord su goos goarch O r. subst r.
  pose proof (x_EnvWithGOOS_spec ord (Constraints.su_environ su) (Constraints.su_hostarch su) (Constraints.su_hostos su) goos goarch) as S.
  pose proof (envWithGOOS_agrees su goos goarch) as A.
  destruct (Constraints.envWithGOOS su goos goarch) as [env'|]; destruct (env_split (Constraints.su_environ su) []) as [m|]; try contradiction.
  - rewrite S. cbn [fst snd]. split; [reflexivity|]. rewrite x_joinEnv_spec.
    eapply Permutation_trans; [apply Permutation_map, O|exact A].
  - tauto.
Qed.
""",
        "search": _ENV_GRID + _GOOS_GRID,
        "args": ["op", "environ", "goos", "goarch"], "replay": None},
    "checkDupeTargets": {
        "file": "parse/parse.go", "names": "checkDupeTargets,+Function.Name,+Function.Receiver,+PkgInfo.Funcs", "src": ["checkDupeTargets"],
        "model": "Model/Dupes.check_dupe_targets (C07; strings.ToLower read as the ASCII lower-casing Dupes.lower)",
        "requires": "From Mage Require Import Proof.GoLib_models.\nFrom Mage Require Model.Dupes.\n",
        "defs": """Definition to_dupes (f : x_Function) : Dupes.func :=
  {| Dupes.f_alias := ""; Dupes.f_path := ""; Dupes.f_recv := x_Function_Receiver f; Dupes.f_name := x_Function_Name f |}.
""",
        "theorems": ["x_checkDupeTargets_Dupes"],
        "agree": """Theorem x_checkDupeTargets_Dupes : forall info,
  x_checkDupeTargets info = Dupes.check_dupe_targets (map to_dupes (x_PkgInfo_Funcs info)).
Proof.
  intros info. unfold x_checkDupeTargets, Dupes.check_dupe_targets. cbv zeta.
  generalize (x_PkgInfo_Funcs info) as fs0. clear info. intros fs0.
  match goal with |- context [fold_left ?f fs0 _] =>
    assert (STEP : forall has (lowers : list (string * bool)) lowers' (names : list (string * list string)) x,
      lowers_rel lowers lowers' ->
      exists l1 l2 h1 n1, f (has, lowers, names) x = (h1, l1, n1) /\\
        Dupes.cdt_step (has, lowers', names) (to_dupes x) = (h1, l2, n1) /\\ lowers_rel l1 l2);
    [|assert (G : forall fs has (lowers : list (string * bool)) lowers' (names : list (string * list string)),
      lowers_rel lowers lowers' ->
      exists l1 l2 h1 n1,
        fold_left f fs (has, lowers, names) = (h1, l1, n1) /\\
        fold_left Dupes.cdt_step (map to_dupes fs) (has, lowers', names) = (h1, l2, n1))]
  end.
  { intros has lowers lowers' names x R. destruct x.
    unfold Dupes.cdt_step, Dupes.low_of, to_dupes, Dupes.is_empty. cbv beta iota zeta.
    cbn [Dupes.f_recv Dupes.f_name x_Function_Name x_Function_Receiver].
    rewrite ?ToLower_Dupes.
    repeat match goal with |- context [String.eqb ?a ?b] => destruct (String.eqb_spec a b) end; cbn [negb];
      rewrite ?sapp_assoc, ?map_set_append, ?R; try congruence; eexists _, _, _, _;
      (split; [reflexivity|split; [reflexivity|apply lowers_rel_add, R]]). }
  { induction fs as [|x fs IH]; intros has lowers lowers' names R; cbn [fold_left map]; [eauto 8|].
    destruct (STEP has lowers lowers' names x R) as (l1 & l2 & h1 & n1 & -> & -> & R'). apply IH, R'. }
  destruct (G fs0 false [] [] [] lowers_rel_nil) as (l1 & l2 & h1 & n1 & E1 & E2).
  rewrite E1, E2. reflexivity.
Qed.
""",
        "search": """Definition fpool := map x_Function_mk (words ["A"; "a"; "B"; ""] x_Function_arity).
Definition grid := words_upto fpool 3.
Definition show_f (f : x_Function) : string := (x_Function_Receiver f ++ "." ++ x_Function_Name f)%string.
Definition show_r (r : bool * gomap (list string)) : list string :=
  (if fst r then "hasDupes" else "no dupes") :: map (fun kv => (fst kv ++ " -> " ++ String.concat "," (snd kv))%string) (snd r).
Definition D := Eval vm_compute in firstn 3 (diffs (list_eqb String.eqb) (fun fs => [map show_f fs]) (fun r => r)
  (fun fs => show_r (x_checkDupeTargets {| x_PkgInfo_Funcs := fs |})) (fun fs => show_r (Dupes.check_dupe_targets (map to_dupes fs))) grid).
""",
        "args": ["info.Funcs (Receiver.Name)"], "replay": None},
    "toOneLine": {
        "file": "parse/parse.go", "names": "toOneLine", "src": ["toOneLine"],
        "model": "Model/Classify.toOneLine (C06; strings.TrimSpace read as trimming ASCII white space)",
        "requires": "From Mage Require Import Proof.GoLib_models.\nFrom Mage Require Model.Classify.\n", "defs": "",
        "theorems": ["x_toOneLine_Classify"],
        "agree": """Theorem x_toOneLine_Classify : forall s, x_toOneLine s = Classify.toOneLine s.
Proof.
  intros s. unfold x_toOneLine, Classify.toOneLine. cbv zeta.
  rewrite ?TrimSpace_Classify, ?ReplaceAll_nl_Classify. reflexivity.
Qed.
""",
        "search": """Definition nl : string := bs [10].
Definition grid := ["a"; ""; " a "; (nl ++ "a" ++ nl ++ "b" ++ nl)%string; ("a" ++ nl ++ nl ++ "b")%string; "  "; (" " ++ nl)%string;
  (bs [9] ++ "x y" ++ bs [13])%string; ("a " ++ nl ++ " b")%string; "a  b"; nl; (nl ++ nl)%string; ("x" ++ nl)%string; (nl ++ "x")%string].
Definition D := Eval vm_compute in firstn 3 (diffs String.eqb (fun s => [[s]]) show_str x_toOneLine Classify.toOneLine grid).
""",
        "args": ["s"], "replay": None},

    # ---------------------------------------------------------------- third batch: cache name, exit statuses
    "ExeName": {
        "checks": ["C08"],
        "file": "mage/main.go",
        "names": "ExeName!$mageMainfileTplString!?hashFile!?internal.OutputDebug=string:string>string:error!?filepath.Join=string:string>string!runtime_GOOS",
        "src": ["ExeName"],
        "model": "Model/Cache.exe_name (C08): H (join (sort file hashes ++ [H template]) ++ key ++ go version); sha1 (%x), hashFile, `go version` (internal.OutputDebug), filepath.Join, the template text are parameters",
        "requires": "From Mage Require Import Proof.GoLib_models.\nFrom Mage Require Model.Cache.\n",
        "defs": """Definition exe_suffix (goos : string) : string := if String.eqb goos "windows" then ".exe" else "".
""",
        "theorems": ["x_ExeName_Cache", "x_ExeName_errors"],
        "agree": """(* hashFile s = H (contents of s) for every file, `go version` prints ver: the name is the model's, joined to the cache directory *)
Theorem x_ExeName_Cache : forall pjoin hf od H tpl goos goCmd cacheDir files content ver,
  (forall s, In s files -> hf s = (H (content s), None)) ->
  od goCmd "version" = (ver, None) ->
  x_ExeName pjoin hf od H tpl goos goCmd cacheDir files =
  ((pjoin cacheDir (Cache.exe_name H tpl ver (map (fun s => (s, content s)) files)) ++ exe_suffix goos)%string, None).
Proof.
  intros pjoin hf od H tpl goos goCmd cacheDir files content ver Hf Hv.
  unfold x_ExeName. cbv zeta. try go_returned.
  match goal with |- context [fold_left ?f files (?n, _)] =>
    assert (G : forall fs (acc : list string), (forall s, In s fs -> hf s = (H (content s), None)) ->
      fold_left f fs (n, acc) = (n, (acc ++ map (fun s => H (content s)) fs)%list))
  end.
  { induction fs as [|s fs IH]; intros acc Hs; cbn [fold_left map]; [now rewrite app_nil_r|].
    rewrite (Hs s (or_introl eq_refl)). cbn [is_nil negb]. rewrite IH by (intros; apply Hs; now right).
    now rewrite <- app_assoc. }
  rewrite (G files [] Hf), ?Hv. cbn [is_nil negb app]. rewrite ?Hv. cbn [is_nil negb app].
  unfold Cache.exe_name, Cache.exe_name_k, Cache.name_input, Cache.name_input_f, Cache.hash_list, Cache.file_hashes, Cache.magicRebuildKey, exe_suffix.
  rewrite ?sort_Strings_Cache, ?strings_Join_Cache, map_map. cbn [snd]. rewrite ?sapp_assoc.
  go_cases; rewrite ?sapp_nil_r; reflexivity.
Qed.
(* a file that cannot be hashed or a failing `go version` is an error *)
Theorem x_ExeName_errors : forall pjoin hf od H tpl goos goCmd cacheDir files,
  (Exists (fun s => snd (hf s) <> None) files \\/ snd (od goCmd "version") <> None) ->
  snd (x_ExeName pjoin hf od H tpl goos goCmd cacheDir files) <> None.
Proof.
  intros pjoin hf od H tpl goos goCmd cacheDir files Hbad.
  unfold x_ExeName. cbv zeta. go_returned.
  match goal with |- context [fold_left ?f files (?n, _)] =>
    assert (G : forall fs (acc : list string),
      (exists r st, fold_left f fs (n, acc) = (Some r, st) /\\ snd r <> None) \\/
      (~ Exists (fun s => snd (hf s) <> None) fs /\\ exists st, fold_left f fs (n, acc) = (n, st)))
  end.
  { induction fs as [|s fs IH]; intros acc; cbn [fold_left].
    - right. split; [intros E; inversion E|eauto].
    - destruct (hf s) as [h [e|]] eqn:Es; cbn [is_nil negb].
      + left. rewrite Hret. eexists _, _. split; [reflexivity|]. cbn. discriminate.
      + destruct (IH (acc ++ [h])%list) as [L|[N [st E]]]; [left; exact L|right]. split; [|eauto].
        intros E'. inversion E'; subst; [rewrite Es in *; cbn in *; congruence|auto]. }
  destruct (G files []) as [(r & st & -> & Hr)|[N [st ->]]]; [exact Hr|].
  destruct Hbad as [B|B]; [contradiction|].
  destruct (od goCmd "version") as [v [e|]]; cbn in *; [discriminate|congruence].
Qed.
""",
        "search": """Definition H (s : string) : string := ("<" ++ s ++ ">")%string.
Definition hf (s : string) : string * option string := if String.eqb s "bad" then ("", Some "unreadable") else (H ("contents of " ++ s), None).
Definition od (cmd arg : string) : string * option string := if String.eqb cmd "nogo" then ("", Some "not found") else ((cmd ++ " " ++ arg ++ " go1.x")%string, None).
Definition pjoin (a b : string) : string := (a ++ "/" ++ b)%string.
Definition grid := pairs (words_upto ["b.go"; "a.go"; "c.go"; "bad"] 3) (pairs ["go"; "nogo"] ["linux"; "windows"]).
Definition spec (x : list string * (string * string)) : list string :=
  let '(files, (gocmd, goos)) := x in
  if existsb (String.eqb "bad") files || String.eqb gocmd "nogo" then ["error"]
  else ["ok"; (pjoin "CACHE" (Cache.exe_name H "TEMPLATE" (gocmd ++ " version go1.x") (map (fun s => (s, "contents of " ++ s)) files)) ++ exe_suffix goos)]%string.
Definition show (r : string * option string) : list string := if is_nil (snd r) then ["ok"; fst r] else ["error"].
Definition D := Eval vm_compute in firstn 3 (diffs (list_eqb String.eqb) (fun x => [fst x; [fst (snd x)]; [snd (snd x)]]) (fun r => r)
  (fun x => show (x_ExeName pjoin hf od H "TEMPLATE" (snd (snd x)) (fst (snd x)) "CACHE" (fst x))) spec grid).
""",
        "args": ["files", "goCmd", "runtime.GOOS"], "replay": None},
    "sh.ExitStatus": {
        "checks": ["C15", "C05"],
        "file": "sh/cmd.go", "names": "ExitStatus!dyn,CmdRan!dyn", "src": ["ExitStatus", "CmdRan"],
        "model": "Model/Sh.sh_ExitStatus, Sh.sh_CmdRan (C15) and Model/ExitChain.sh_ExitStatus, sh_CmdRan (C05); errors as classes of dynamic types (Base/GoLib.dynerr)",
        "requires": "From Mage Require Model.Sh Model.ExitChain.\n",
        "defs": """Definition of_sh (e : Sh.err) : dynerr :=
  match e with
  | Sh.ENil => DNil
  | Sh.EExitError w => DExitError (Sh.ws_exited w) (Some (Sh.ws_exitstatus w))   (* syscall.WaitStatus has ExitStatus() *)
  | Sh.EFatal c => DExitStatus c
  | Sh.EOther => DOther
  end.
(* the error c.Run() returns for what became of the child (Model/ExitChain.v) *)
Definition of_child (c : ExitChain.child) : dynerr :=
  if ExitChain.run_err_nil c then DNil
  else match c with
       | ExitChain.CExit n => DExitError true (Some (ExitChain.kernel n))
       | ExitChain.CSignaled => DExitError false (Some (-1)%Z)
       | ExitChain.CNotStarted => DOther
       end.
Definition sh_ExitStatus_spec (e : dynerr) : Z :=
  match e with DNil => 0 | DExitStatus c => c | DExitError _ (Some c) => c | _ => 1 end%Z.
Definition sh_CmdRan_spec (e : dynerr) : bool :=
  match e with DNil => true | DExitError x _ => x | _ => false end.
""",
        "theorems": ["x_sh_ExitStatus_spec", "x_sh_CmdRan_spec", "x_sh_ExitStatus_Sh", "x_sh_CmdRan_Sh", "x_sh_ExitStatus_ExitChain", "x_sh_CmdRan_ExitChain"],
        "agree": """Theorem x_sh_ExitStatus_spec : forall e, x_ExitStatus e = sh_ExitStatus_spec e.
Proof. intros [|c|x [s|]|]; reflexivity. Qed.
Theorem x_sh_CmdRan_spec : forall e, x_CmdRan e = sh_CmdRan_spec e.
Proof. intros [|c|x [s|]|]; reflexivity. Qed.
Theorem x_sh_ExitStatus_Sh : forall e, x_ExitStatus (of_sh e) = Sh.sh_ExitStatus e.
Proof. intros [|w|c|]; try destruct w; reflexivity. Qed.
Theorem x_sh_CmdRan_Sh : forall e, x_CmdRan (of_sh e) = Sh.sh_CmdRan e.
Proof. intros [|w|c|]; try destruct w; reflexivity. Qed.
Theorem x_sh_ExitStatus_ExitChain : forall c, x_ExitStatus (of_child c) = ExitChain.sh_ExitStatus c.
Proof. intros c. rewrite x_sh_ExitStatus_spec. unfold of_child, ExitChain.sh_ExitStatus. destruct (ExitChain.run_err_nil c); destruct c; reflexivity. Qed.
Theorem x_sh_CmdRan_ExitChain : forall c, x_CmdRan (of_child c) = ExitChain.sh_CmdRan c.
Proof. intros c. rewrite x_sh_CmdRan_spec. unfold of_child, ExitChain.sh_CmdRan. destruct (ExitChain.run_err_nil c); destruct c; reflexivity. Qed.
""",
        "search": _DYN_GRID + """Definition D1 := diffs Z.eqb (fun e => [["ExitStatus"]; show_dyn e]) (fun z => [show_Z z]) x_ExitStatus sh_ExitStatus_spec grid.
Definition D2 := diffs Bool.eqb (fun e => [["CmdRan"]; show_dyn e]) show_bool x_CmdRan sh_CmdRan_spec grid.
Definition D := Eval vm_compute in firstn 3 (D1 ++ D2)%list.
""",
        "args": ["op", "err"], "replay": None},
    "mg.ExitStatus": {
        "checks": ["C05", "C15"],
        "file": "mg/errors.go", "names": "ExitStatus!dyn", "src": ["ExitStatus"],
        "model": "Model/ExitChain.mg_ExitStatus (C05) and Model/Sh.mg_ExitStatus (C15); errors as classes of dynamic types (Base/GoLib.dynerr)",
        "requires": "From Mage Require Model.Sh Model.ExitChain.\n",
        "defs": """Definition of_value (v : ExitChain.value) : dynerr :=
  match v with ExitChain.VNil => DNil | ExitChain.VFatal c => DExitStatus c | ExitChain.VPlain => DOther | ExitChain.VOther => DOther end.
Definition of_sh (e : Sh.err) : dynerr :=
  match e with
  | Sh.ENil => DNil
  | Sh.EExitError w => DExitError (Sh.ws_exited w) (Some (Sh.ws_exitstatus w))
  | Sh.EFatal c => DExitStatus c
  | Sh.EOther => DOther
  end.
Definition mg_ExitStatus_spec (e : dynerr) : Z := match e with DNil => 0 | DExitStatus c => c | _ => 1 end%Z.
""",
        "theorems": ["x_mg_ExitStatus_spec", "x_mg_ExitStatus_ExitChain", "x_mg_ExitStatus_Sh"],
        "agree": """Theorem x_mg_ExitStatus_spec : forall e, x_ExitStatus e = mg_ExitStatus_spec e.
Proof. intros [|c|x [s|]|]; reflexivity. Qed.
Theorem x_mg_ExitStatus_ExitChain : forall v, x_ExitStatus (of_value v) = ExitChain.mg_ExitStatus v.
Proof. intros [| |c|]; reflexivity. Qed.
Theorem x_mg_ExitStatus_Sh : forall e, x_ExitStatus (of_sh e) = Sh.mg_ExitStatus e.
Proof. intros [|w|c|]; try destruct w; reflexivity. Qed.
""",
        "search": _DYN_GRID + """Definition D := Eval vm_compute in firstn 3 (diffs Z.eqb (fun e => [["ExitStatus"]; show_dyn e]) (fun z => [show_Z z]) x_ExitStatus mg_ExitStatus_spec grid).
""",
        "args": ["op", "err"], "replay": None},

    "sanitizeSynopsis": {
        "checks": ["C06"],
        "file": "parse/parse.go", "names": "sanitizeSynopsis!%doc.Func=Doc:Name!?doc.Synopsis=string>string", "src": ["sanitizeSynopsis"],
        "model": "Model/Classify.sanitizeSynopsis (C06; go/doc's Synopsis is a parameter; strings.EqualFold read as the ASCII fold Classify.equal_fold)",
        "requires": "From Mage Require Import Proof.GoLib_models.\nFrom Mage Require Model.Classify.\n", "defs": "",
        "theorems": ["x_sanitizeSynopsis_Classify"],
        "agree": """Theorem x_sanitizeSynopsis_Classify : forall synopsis f,
  x_sanitizeSynopsis synopsis f = Classify.sanitizeSynopsis (x_doc_Func_Name f) (synopsis (x_doc_Func_Doc f)).
Proof.
  intros synopsis f. unfold x_sanitizeSynopsis, Classify.sanitizeSynopsis. cbv zeta.
  change " "%string with (String " "%char EmptyString) at 1. rewrite ?strings_Split_char, ?split_char_Classify.
  destruct (Classify.split_on " " (synopsis (x_doc_Func_Doc f))) as [|w rest] eqn:E.
  - exfalso. rewrite <- split_char_Classify in E. exact (split_char_nonempty _ _ E).
  - rewrite ?index_0. change (Z.to_nat 1) with 1%nat. cbn [skipn]. rewrite ?EqualFold_Classify, ?strings_Join_Classify.
    go_cases; reflexivity.
Qed.
""",
        "search": """Definition grid := pairs ["Clean"; "clean"; "Build"; ""] ["Clean removes files"; "clean up"; "CLEAN"; "Cleans all"; ""; " Clean x"; "Build  twice  spaced"; "x"].
Definition D := Eval vm_compute in firstn 3 (diffs String.eqb (fun x => [[fst x]; [snd x]]) show_str
  (fun x => x_sanitizeSynopsis (fun d => d) (x_doc_Func_mk [snd x; fst x])) (fun x => Classify.sanitizeSynopsis (fst x) (snd x)) grid).
""",
        "args": ["f.Name", "doc.Synopsis(f.Doc)"], "replay": None},

    # ---------------------------------------------------------------- fourth batch
    "mg.runtime": {
        "checks": ["C11", "C08"],
        "file": "mg/runtime.go",
        "names": "Verbose!?os.Getenv=string>string,Debug!?os.Getenv=string>string,GoCmd!?os.Getenv=string>string,HashFast!?os.Getenv=string>string,IgnoreDefault!?os.Getenv=string>string,EnableColor!?os.Getenv=string>string,CacheDir!?os.Getenv=string>string!?filepath.Join=...string>string!?os.TempDir=>string!runtime_GOOS",
        "src": ["Verbose", "Debug", "GoCmd", "HashFast", "IgnoreDefault", "EnableColor", "CacheDir"],
        "model": "Model/Flags.mg_verbose, mg_debug, mg_gocmd, mg_bool (C11; os.Getenv is a parameter = Flags.getenv of the environment; strconv.ParseBool = FlagPkg.parse_bool) and Model/Paths.cache_dir_env (C08; filepath.Join, os.TempDir, runtime.GOOS are parameters)",
        "requires": "From Mage Require Import Proof.GoLib_models.\nFrom Mage Require Model.Flags Model.Paths.\n",
        "defs": """Definition CacheDir_spec (pjoin : list string -> string) (getenv : string -> string) (tmp goos : string) : string :=
  if negb (String.eqb (getenv "MAGEFILE_CACHE") "") then getenv "MAGEFILE_CACHE"
  else if String.eqb goos "windows" then pjoin [getenv "HOMEDRIVE"; getenv "HOMEPATH"; "magefile"]
  else if String.eqb (getenv "HOME") "" then pjoin [tmp; ".magefile"] else pjoin [getenv "HOME"; ".magefile"].
""",
        "theorems": ["x_Verbose_Flags", "x_Debug_Flags", "x_GoCmd_Flags", "x_HashFast_Flags", "x_IgnoreDefault_Flags", "x_EnableColor_Flags", "x_CacheDir_spec", "x_CacheDir_Paths"],
        "agree": """Ltac go_parsebool := intros; cbv zeta; rewrite ?ParseBool_FlagPkg; unfold Flags.mg_verbose, Flags.mg_debug, Flags.mg_bool, Flags.VERBOSE, Flags.DEBUG;
  repeat match goal with |- context [FlagPkg.parse_bool ?s] => destruct (FlagPkg.parse_bool s) end; cbn [is_nil negb]; try reflexivity.
Theorem x_Verbose_Flags : forall e, x_Verbose (fun k => Flags.getenv k e) = Flags.mg_verbose e.
Proof. unfold x_Verbose. go_parsebool. Qed.
Theorem x_Debug_Flags : forall e, x_Debug (fun k => Flags.getenv k e) = Flags.mg_debug e.
Proof. unfold x_Debug. go_parsebool. Qed.
Theorem x_GoCmd_Flags : forall e, x_GoCmd (fun k => Flags.getenv k e) = Flags.mg_gocmd e.
Proof. intros. unfold x_GoCmd, Flags.mg_gocmd, Flags.GOCMD. cbv zeta. go_cases; try reflexivity; congruence. Qed.
Theorem x_HashFast_Flags : forall e, x_HashFast (fun k => Flags.getenv k e) = Flags.mg_bool "MAGEFILE_HASHFAST" e.
Proof. unfold x_HashFast. go_parsebool. Qed.
Theorem x_IgnoreDefault_Flags : forall e, x_IgnoreDefault (fun k => Flags.getenv k e) = Flags.mg_bool "MAGEFILE_IGNOREDEFAULT" e.
Proof. unfold x_IgnoreDefault. go_parsebool. Qed.
Theorem x_EnableColor_Flags : forall e, x_EnableColor (fun k => Flags.getenv k e) = Flags.mg_bool "MAGEFILE_ENABLE_COLOR" e.
Proof. unfold x_EnableColor. go_parsebool. Qed.
Theorem x_CacheDir_spec : forall pjoin getenv tmp goos, x_CacheDir pjoin getenv tmp goos = CacheDir_spec pjoin getenv tmp goos.
Proof. intros. unfold x_CacheDir, CacheDir_spec. cbv zeta. go_cases; try reflexivity; congruence. Qed.
(* not windows, filepath.Join read on parsed paths as Model/Paths.join2: the directory is Paths.cache_dir_env *)
Theorem x_CacheDir_Paths : forall pjoin getenv goos (l : Paths.layout),
  goos <> "windows" ->
  (forall a b, Paths.parse_path (pjoin [a; b]) = Paths.join2 (Paths.parse_path a) (Paths.parse_path b)) ->
  getenv "MAGEFILE_CACHE" = Paths.l_cache_env l -> getenv "HOME" = Paths.l_home l ->
  Paths.parse_path (x_CacheDir pjoin getenv (Paths.l_tmp l) goos) = Paths.cache_dir_env l.
Proof.
  intros pjoin getenv goos l G J C H. rewrite x_CacheDir_spec. unfold CacheDir_spec, Paths.cache_dir_env.
  rewrite C, H. apply String.eqb_neq in G. rewrite G. go_cases; rewrite ?J; try reflexivity; congruence.
Qed.
""",
        "search": """Definition names := ["MAGEFILE_VERBOSE"; "MAGEFILE_DEBUG"; "MAGEFILE_GOCMD"; "MAGEFILE_HASHFAST"; "MAGEFILE_IGNOREDEFAULT"; "MAGEFILE_ENABLE_COLOR"].
Definition grid := pairs names [""; "1"; "true"; "TRUE"; "yes"; "0"; "F"; "2"; "gotip"].
Definition env_of (x : string * string) : Flags.env := [(fst x, snd x)].
Definition bdiff (op : string) (f : (string -> string) -> bool) (g : Flags.env -> bool) :=
  diffs Bool.eqb (fun x => [[op]; [fst x]; [snd x]]) show_bool (fun x => f (fun k => Flags.getenv k (env_of x))) (fun x => g (env_of x)) grid.
Definition pj (l : list string) : string := String.concat "/" l.
Definition cgrid := pairs (pairs [""; "/cache"] [""; "/home/u"]) ["linux"; "windows"; "darwin"].
Definition cenv (x : string * string * string) (k : string) : string :=
  if String.eqb k "MAGEFILE_CACHE" then fst (fst x) else if String.eqb k "HOME" then snd (fst x)
  else if String.eqb k "HOMEDRIVE" then "C:" else if String.eqb k "HOMEPATH" then "Users" else "".
Definition D := Eval vm_compute in firstn 3 (
  bdiff "Verbose" x_Verbose Flags.mg_verbose ++ bdiff "Debug" x_Debug Flags.mg_debug
  ++ bdiff "HashFast" x_HashFast (Flags.mg_bool "MAGEFILE_HASHFAST") ++ bdiff "IgnoreDefault" x_IgnoreDefault (Flags.mg_bool "MAGEFILE_IGNOREDEFAULT")
  ++ bdiff "EnableColor" x_EnableColor (Flags.mg_bool "MAGEFILE_ENABLE_COLOR")
  ++ diffs String.eqb (fun x => [["GoCmd"]; [fst x]; [snd x]]) show_str (fun x => x_GoCmd (fun k => Flags.getenv k (env_of x))) (fun x => Flags.mg_gocmd (env_of x)) grid
  ++ diffs String.eqb (fun x => [["CacheDir"]; ["MAGEFILE_CACHE=" ++ fst (fst x); "HOME=" ++ snd (fst x)]%string; [snd x]]) show_str
       (fun x => x_CacheDir pj (cenv x) "/tmp" (snd x)) (fun x => CacheDir_spec pj (cenv x) "/tmp" (snd x)) cgrid)%list.
""",
        "args": ["op", "variable / environment", "value / runtime.GOOS"], "replay": None},

    "signature": {
        "checks": ["C06"],
        "file": "parse/parse.go", "names": "hasContextParam,hasVoidReturn,hasErrorReturn", "src": ["hasContextParam", "hasVoidReturn", "hasErrorReturn"],
        "model": "Model/Classify.hasContextParam, hasErrorReturn, num_fields_r (C06: what a valid target signature is); go/ast as Base/GoLib.ast_expr / ast_field / ast_functype, fmt.Sprint of a type expression is a parameter",
        "requires": "From Mage Require Import Proof.GoLib_models.\nFrom Mage Require Model.Classify.\n",
        "defs": "Import Classify.\n",
        "theorems": ["x_hasContextParam_Classify", "x_hasVoidReturn_Classify", "x_hasErrorReturn_Classify"],
        "agree": """Ltac go_sig := cbn; try lia; try reflexivity; try (split; [reflexivity|discriminate]); try congruence.
Theorem x_hasContextParam_Classify : forall ft,
  agrees (x_hasContextParam ft) (Classify.hasContextParam (map pgroup_of (fieldlist_List (ft_params ft)))).
Proof.
  intros [tp [[|f r]|] rs]; cbn [ft_params fieldlist_List map]; try (cbn; reflexivity).
  unfold x_hasContextParam, Classify.hasContextParam. cbn [ft_params]. cbv zeta.
  rewrite ?NumFields_params. cbn [map fieldlist_List]. rewrite ?index_0.
  pose proof (num_fields_cons (pgroup_of f) (map pgroup_of r)) as N.
  destruct (Nat.ltb_spec (num_fields (pgroup_of f :: map pgroup_of r)) 1); [lia|].
  destruct f as [names ty]. cbn [fld_type fld_names pgroup_of pty_ pnames] in *.
  destruct ty as [n|[p|x' s'|tag'] s|tag]; cbn [ast_as_Selector ast_as_Ident pty_of negb fst snd]; unfold len_ in *;
    destruct (Nat.ltb_spec 1 (length names)); go_cases; go_sig.
Qed.
Theorem x_hasVoidReturn_Classify : forall sp ft,
  x_hasVoidReturn ft = Nat.eqb (num_fields_r (map (rgroup_of sp) (fieldlist_List (ft_results ft)))) 0.
Proof.
  intros sp [tp ps [l|]]; unfold x_hasVoidReturn; cbv zeta; cbn [ft_results fieldlist_List map]; [|reflexivity].
  rewrite ?(NumFields_results sp).
  destruct (Nat.eqb_spec (num_fields_r (map (rgroup_of sp) l)) 0); go_cases; go_sig.
Qed.
Theorem x_hasErrorReturn_Classify : forall sp ft,
  agrees (x_hasErrorReturn sp ft) (Classify.hasErrorReturn (map (rgroup_of sp) (fieldlist_List (ft_results ft)))).
Proof.
  intros sp [tp ps [[|f r]|]]; cbn [ft_results fieldlist_List map]; try (cbn; reflexivity).
  unfold x_hasErrorReturn, Classify.hasErrorReturn. cbn [ft_results]. cbv zeta.
  rewrite ?(NumFields_results sp). cbn [map fieldlist_List]. rewrite ?index_0.
  pose proof (num_fields_r_cons (rgroup_of sp f) (map (rgroup_of sp) r)) as N.
  set (n := num_fields_r (rgroup_of sp f :: map (rgroup_of sp) r)) in *.
  destruct (Nat.eqb_spec n 0); [lia|]. destruct (Nat.ltb_spec 1 n).
  - go_cases; go_sig.
  - cbn [rgroup_of rnames rkind_] in *. unfold len_ in *.
    destruct (Nat.ltb_spec 1 (length (fld_names f))); destruct (String.eqb (sp (fld_type f)) "error") eqn:E; go_cases; go_sig.
Qed.
""",
        "search": """Definition sp (e : ast_expr) : string :=
  match e with AIdent n => n | ASelector (AIdent p) s => ("&{" ++ p ++ " " ++ s ++ "}")%string | ASelector _ s => ("&{0xc000 " ++ s ++ "}")%string | AOther t => t end.
Definition tys := [AIdent "string"; AIdent "error"; ASelector (AIdent "context") "Context"; ASelector (AIdent "time") "Duration";
  ASelector (AIdent "ctx") "Context"; ASelector (AIdent "context") "context"; ASelector (AOther "f()") "Context"; AOther "*error"].
Definition fields := flat_map (fun ty => map (fun ns => {| fld_names := ns; fld_type := ty |}) [[]; ["a"]; ["a"; "b"]]) tys.
Definition lists := (None :: map (@Some _) (words_upto fields 2))%list.
Definition show_e (e : ast_expr) : string := sp e.
Definition show_f (f : ast_field) : string := (String.concat "," (fld_names f) ++ " " ++ show_e (fld_type f))%string.
Definition show_l (l : ast_fieldlist) : list string := match l with None => ["<nil>"] | Some fs => map show_f fs end.
Definition show_r (r : bool * option string) : list string := [if fst r then "true" else "false"; if is_nil (snd r) then "nil" else "error"].
Definition show_m (m : option bool) : list string := match m with Some b => [if b then "true" else "false"; "nil"] | None => ["false"; "error"] end.
Definition grid := lists.
Definition D1 := diffs (list_eqb String.eqb) (fun l => [["hasContextParam"]; show_l l]) (fun r => r)
  (fun l => show_r (x_hasContextParam {| ft_typeparams := None; ft_params := l; ft_results := None |}))
  (fun l => show_m (Classify.hasContextParam (map pgroup_of (fieldlist_List l)))) lists.
Definition D2 := diffs (list_eqb String.eqb) (fun l => [["hasErrorReturn"]; show_l l]) (fun r => r)
  (fun l => show_r (x_hasErrorReturn sp {| ft_typeparams := None; ft_params := Some []; ft_results := l |}))
  (fun l => show_m (Classify.hasErrorReturn (map (rgroup_of sp) (fieldlist_List l)))) lists.
Definition D3 := diffs Bool.eqb (fun l => [["hasVoidReturn"]; show_l l]) show_bool
  (fun l => x_hasVoidReturn {| ft_typeparams := None; ft_params := Some []; ft_results := l |})
  (fun l => Nat.eqb (num_fields_r (map (rgroup_of sp) (fieldlist_List l))) 0) lists.
Definition D := Eval vm_compute in firstn 3 (D1 ++ D2 ++ D3)%list.
""",
        "args": ["op", "fields (names type)"], "replay": None},

    "importTag": {
        "checks": ["C19"],
        "file": "parse/parse.go", "names": "lit2string!?strconv.Unquote=string>string:error,getImportPathFromCommentGroup,getImportPath!?strconv.Unquote=string>string:error",
        "src": ["getImportPathFromCommentGroup", "getImportPath", "lit2string"],
        "model": "Model/ImportTag.from_group, get_import_path (C19: the `mage:import [alias]` comment grammar); *ast.CommentGroup = nil or the comment texts, *ast.ImportSpec = (Doc, Comment, Path literal), strconv.Unquote is a parameter, log output is not part of the value, strings.Fields / ToLower in their ASCII readings",
        "requires": "From Mage Require Import Proof.GoLib_models.\nFrom Mage Require Model.ImportTag.\n",
        "defs": 'Definition spec_of (imp : ast_importspec) (p : string) : ImportTag.impspec :=\n  {| ImportTag.is_doc := imp_doc imp; ImportTag.is_comment := imp_comment imp; ImportTag.is_path := p; ImportTag.is_raw := false |}.\n',
        "theorems": ["x_fromCommentGroup_ImportTag", "x_getImportPath_ImportTag", "x_getImportPath_bad_literal"],
        "agree": 'Theorem x_fromCommentGroup_ImportTag : forall g, x_getImportPathFromCommentGroup g = ImportTag.from_group g.\nProof.\n  intros [l|]; [|reflexivity]. unfold x_getImportPathFromCommentGroup, ImportTag.from_group, ImportTag.from_group_gen.\n  cbv zeta. cbn [commentgroup_is_nil commentgroup_List orb].\n  destruct l as [|c l]; [reflexivity|]. rewrite ?index_last by discriminate.\n  change (Z.to_nat 2) with 2%nat. rewrite ?sdrop2_drop2, ?ToLower_ImportTag, ?Fields_ImportTag.\n  set (vals := ImportTag.fields _). cbn [length Nat.eqb].\n  rewrite len_cons. pose proof (len_nonneg l).\n  destruct vals as [|v0 vs]; [go_cases; try reflexivity; lia|].\n  rewrite ?index_0, ?len_cons. pose proof (len_nonneg vs). unfold ImportTag.import_tag.\n  go_cases; try reflexivity; try lia; congruence.\nQed.\n\nTheorem x_getImportPath_ImportTag : forall unq imp p, unq (imp_path imp) = (p, None) ->\n  x_getImportPath unq imp = match ImportTag.get_import_path (spec_of imp p) with\n                            | Some (path, alias) => (path, alias, true)\n                            | None => ("", "", false)\n                            end.\nProof.\n  intros unq imp p H. unfold x_getImportPath, x_lit2string, ImportTag.get_import_path, ImportTag.get_import_path_gen, ImportTag.lit_ok_now, spec_of.\n  cbv zeta. rewrite !x_fromCommentGroup_ImportTag, ?H. cbn [ImportTag.is_doc ImportTag.is_comment ImportTag.is_path is_nil negb].\n  destruct (ImportTag.from_group (imp_doc imp)) as [|a [|b [|c l]]];\n    destruct (ImportTag.from_group (imp_comment imp)) as [|a\' [|b\' [|c\' l\']]];\n    try reflexivity;\n    try (unfold len_; cbn [length]; go_cases; try reflexivity; lia).\nQed.\nTheorem x_getImportPath_bad_literal : forall unq imp s e, unq (imp_path imp) = (s, Some e) ->\n  x_getImportPath unq imp = ("", "", false).\nProof.\n  intros unq imp s e H. unfold x_getImportPath, x_lit2string. cbv zeta. rewrite ?H. cbn [is_nil negb]. go_cases; reflexivity.\nQed.\n',
        "search": """Definition texts := ["//mage:import"; "// mage:import"; "// MAGE:Import Alias"; "//mage:import a b"; "// x"; "//"; "/* mage:import */"; "//  mage:import  zz "; "// mage:imports"].
Definition groups : list ast_commentgroup := (None :: Some [] :: map (fun s => Some [s]) texts ++ [Some ["// mage:import"; "// x"]; Some ["// x"; "// mage:import q"]])%list.
Definition grid := pairs groups groups.
Definition show_g (g : ast_commentgroup) : list string := match g with None => ["<nil>"] | Some l => ("group" :: l)%list end.
Definition unq (v : string) : string * option string := if String.eqb v "bad" then ("", Some "invalid syntax") else (("unquoted " ++ v)%string, None).
Definition show3 (r : string * string * bool) : list string := let '(p, a, ok) := r in [p; a; if ok then "true" else "false"].
Definition D1 := diffs (list_eqb String.eqb) (fun g => [["getImportPathFromCommentGroup"]; show_g g; []]) (fun r => r)
  x_getImportPathFromCommentGroup ImportTag.from_group groups.
Definition D2 := diffs (list_eqb String.eqb) (fun x => [["getImportPath"]; show_g (fst x); show_g (snd x)]) (fun r => r)
  (fun x => show3 (x_getImportPath unq {| imp_doc := fst x; imp_comment := snd x; imp_path := "lit" |}))
  (fun x => match ImportTag.get_import_path (spec_of {| imp_doc := fst x; imp_comment := snd x; imp_path := "lit" |} "unquoted lit") with
            | Some (p, a) => [p; a; "true"] | None => [""; ""; "false"] end) grid.
Definition D := Eval vm_compute in firstn 3 (D1 ++ D2)%list.
""",
        "args": ["op", "Doc comment group", "trailing comment group"], "replay": None},

    # ---------------------------------------------------------------- fifth batch
    "UsesMagefiles": {
        "checks": ["C09", "C10"],
        "file": "mage/main.go", "names": "Invocation.UsesMagefiles!?filepath.Base=string>string,+Invocation.Dir", "src": ["Invocation.UsesMagefiles"],
        "model": "the flag the models take as an input (Model/Lifecycle.f_mfdir, Model/Constraints top_named: \"filepath.Base(inv.Dir) == magefiles\"): the function IS that test, with the directory name of Model/Tables.v; filepath.Base is a parameter",
        "requires": "From Mage Require Model.Tables.\n", "defs": "",
        "theorems": ["x_UsesMagefiles_spec"],
        "agree": """Theorem x_UsesMagefiles_spec : forall base inv,
  x_Invocation_UsesMagefiles base inv = String.eqb (base (x_Invocation_Dir inv)) Tables.expected_MagefilesDirName.
Proof. intros. unfold x_Invocation_UsesMagefiles. cbv zeta. try reflexivity; go_cases; try reflexivity; congruence. Qed.
""",
        "search": """Definition base (s : string) : string := match rev (split_char "/"%char s) with x :: _ => x | [] => s end.
Definition grid := ["magefiles"; "."; "a/magefiles"; "magefiles/x"; "Magefiles"; ""; "x/magefile"; "/abs/magefiles"].
Definition D := Eval vm_compute in firstn 3 (diffs Bool.eqb (fun s => [[s]]) show_bool
  (fun s => x_Invocation_UsesMagefiles base (x_Invocation_mk [s])) (fun s => String.eqb (base s) Tables.expected_MagefilesDirName) grid).
""",
        "args": ["inv.Dir"], "replay": None},

    "funcType": {
        "checks": ["C06"],
        "file": "parse/parse.go", "names": "funcType!?hasTypeParams=ast.FuncType>bool,hasVoidReturn", "src": ["funcType"],
        "model": "Model/Classify.funcType (C06: the whole signature test: type parameters, context, result, the argument loop over parse.argTypes with the names given to unnamed parameters); hasTypeParams (another file, build-tagged) and fmt.Sprint of a type expression are parameters",
        "requires": "From Mage Require Import Proof.GoLib_models.\nFrom Mage Require Model.Classify.\n",
        "defs": "Import Classify.\n",
        "theorems": ["x_hasContextParam_Classify", "x_hasVoidReturn_Classify", "x_hasErrorReturn_Classify", "x_funcType_Classify"],
        "agree": 'Ltac go_sig := cbn; try lia; try reflexivity; try (split; [reflexivity|discriminate]); try congruence.\nTheorem x_hasContextParam_Classify : forall ft,\n  agrees (x_hasContextParam ft) (Classify.hasContextParam (map pgroup_of (fieldlist_List (ft_params ft)))).\nProof.\n  intros [tp [[|f r]|] rs]; cbn [ft_params fieldlist_List map]; try (cbn; reflexivity).\n  unfold x_hasContextParam, Classify.hasContextParam. cbn [ft_params]. cbv zeta.\n  rewrite ?NumFields_params. cbn [map fieldlist_List]. rewrite ?index_0.\n  pose proof (num_fields_cons (pgroup_of f) (map pgroup_of r)) as N.\n  destruct (Nat.ltb_spec (num_fields (pgroup_of f :: map pgroup_of r)) 1); [lia|].\n  destruct f as [names ty]. cbn [fld_type fld_names pgroup_of pty_ pnames] in *.\n  destruct ty as [n|[p|x\' s\'|tag\'] s|tag]; cbn [ast_as_Selector ast_as_Ident pty_of negb fst snd]; unfold len_ in *;\n    destruct (Nat.ltb_spec 1 (length names)); go_cases; go_sig.\nQed.\nTheorem x_hasVoidReturn_Classify : forall sp ft,\n  x_hasVoidReturn ft = Nat.eqb (num_fields_r (map (rgroup_of sp) (fieldlist_List (ft_results ft)))) 0.\nProof.\n  intros sp [tp ps [l|]]; unfold x_hasVoidReturn; cbv zeta; cbn [ft_results fieldlist_List map]; [|reflexivity].\n  rewrite ?(NumFields_results sp).\n  destruct (Nat.eqb_spec (num_fields_r (map (rgroup_of sp) l)) 0); go_cases; go_sig.\nQed.\nTheorem x_hasErrorReturn_Classify : forall sp ft,\n  agrees (x_hasErrorReturn sp ft) (Classify.hasErrorReturn (map (rgroup_of sp) (fieldlist_List (ft_results ft)))).\nProof.\n  intros sp [tp ps [[|f r]|]]; cbn [ft_results fieldlist_List map]; try (cbn; reflexivity).\n  unfold x_hasErrorReturn, Classify.hasErrorReturn. cbn [ft_results]. cbv zeta.\n  rewrite ?(NumFields_results sp). cbn [map fieldlist_List]. rewrite ?index_0.\n  pose proof (num_fields_r_cons (rgroup_of sp f) (map (rgroup_of sp) r)) as N.\n  set (n := num_fields_r (rgroup_of sp f :: map (rgroup_of sp) r)) in *.\n  destruct (Nat.eqb_spec n 0); [lia|]. destruct (Nat.ltb_spec 1 n).\n  - go_cases; go_sig.\n  - cbn [rgroup_of rnames rkind_] in *. unfold len_ in *.\n    destruct (Nat.ltb_spec 1 (length (fld_names f))); destruct (String.eqb (sp (fld_type f)) "error") eqn:E; go_cases; go_sig.\nQed.\n\nDefinition aty_text (a : aty) : string := match a with AString => "string" | AInt => "int" | ABool => "bool" | ADur => "time.Duration" end.\nDefinition key_of (a : aty) : string := match a with AString => "string" | AInt => "int" | ABool => "bool" | ADur => "&{time Duration}" end.\nDefinition arg_of (na : string * aty) : x_Arg := {| x_Arg_Name := fst na; x_Arg_Type := aty_text (snd na) |}.\n(* what fmt.Sprint prints for a parameter type: the key of parse.argTypes for the four supported spellings, no key otherwise *)\nDefinition sprint_ok (sp : ast_expr -> string) : Prop :=\n  forall e, match argType (pty_of e) with\n            | Some a => sp e = key_of a\n            | None => ~ In (sp e) ["string"; "int"; "bool"; "&{time Duration}"]\n            end.\nDefinition fdecl_of (generic : bool) (sp : ast_expr -> string) (ft : ast_functype) : fdecl :=\n  {| fname := ""; recv := None; tparams := generic; params := map pgroup_of (fieldlist_List (ft_params ft));\n     res := map (rgroup_of sp) (fieldlist_List (ft_results ft)); fdoc := ""; fsyn := "" |}.\n\nLemma skipn_nth_cons : forall {A} (d : A) l a, a < length l -> skipn a l = nth a l d :: skipn (S a) l.\nProof. induction l as [|x l IH]; intros [|a] H; simpl in *; try lia; auto. apply IH. lia. Qed.\n\nTheorem x_funcType_Classify : forall sp htp ft, sprint_ok sp ->\n  match Classify.funcType (fdecl_of (htp ft) sp ft) with\n  | Some fn => x_funcType sp htp ft =\n      ({| x_Function_IsError := f_iserr fn; x_Function_IsContext := f_isctx fn; x_Function_Args := map arg_of (f_args fn) |}, None)\n  | None => snd (x_funcType sp htp ft) <> None\n  end.\nProof.\n  intros sp htp ft SP. unfold x_funcType, Classify.funcType, Classify.funcType_, fdecl_of. cbv zeta. cbn [tparams params res].\n  destruct (htp ft); [cbn; discriminate|].\n  pose proof (x_hasContextParam_Classify ft) as HC. unfold agrees in HC.\n  destruct (Classify.hasContextParam (map pgroup_of (fieldlist_List (ft_params ft)))) as [isctx|] eqn:MC.\n  2:{ destruct (x_hasContextParam ft) as [b e]. cbn [fst snd] in HC. destruct HC as [_ HC]. destruct e; [cbn; discriminate|congruence]. }\n  rewrite HC. cbn [is_nil negb].\n  pose proof (x_hasErrorReturn_Classify sp ft) as HE. unfold agrees in HE.\n  destruct (Classify.hasErrorReturn (map (rgroup_of sp) (fieldlist_List (ft_results ft)))) as [iserr|].\n  2:{ destruct (x_hasErrorReturn sp ft) as [b e]. cbn [fst snd] in HE. destruct HE as [_ HE]. destruct e; [cbn; discriminate|congruence]. }\n  rewrite HE. cbn [is_nil negb x_Function_IsContext x_Function_with_IsContext x_Function_with_IsError x_Function_zero].\n  set (ps := fieldlist_List (ft_params ft)) in *. clearbody ps.\n  match goal with |- context [fold_left ?G (zrange _ _) (?n, _)] => set (GG := G); pose (NN := n) end.\n  assert (RET : forall l r st, fold_left GG l (Some r, st) = (Some r, st)).\n  { induction l as [|x l IHl]; intros; cbn [fold_left]; [reflexivity|]. unfold GG at 2. cbv beta iota. apply IHl. }\n  assert (NAMES : forall typ names f,\n    fold_left (fun (f0 : x_Function) (name : string) =>\n                 x_Function_with_Args f0 (x_Function_Args f0 ++ [x_Arg_with_Type (x_Arg_with_Name x_Arg_zero name) typ])) names f\n    = x_Function_with_Args f (x_Function_Args f ++ map (fun n => x_Arg_with_Type (x_Arg_with_Name x_Arg_zero n) typ) names)).\n  { intros typ. induction names as [|n ns IHn]; intros f; cbn [fold_left map].\n    - rewrite app_nil_r. destruct f; reflexivity.\n    - rewrite IHn. cbn [x_Function_with_Args x_Function_Args]. rewrite <- app_assoc. reflexivity. }\n  assert (LOOP : forall k a f acc, k + a = length ps -> x_Function_Args f = map arg_of acc ->\n     match args_loop true (map pgroup_of (skipn a ps)) acc with\n     | Some args => fold_left GG (zrange (Z.of_nat a) (len_ ps)) (NN, f) = (NN, x_Function_with_Args f (map arg_of args))\n     | None => exists r st, fold_left GG (zrange (Z.of_nat a) (len_ ps)) (NN, f) = (Some r, st) /\\ snd r <> None\n     end).\n  { induction k as [|k IH]; intros a f acc Hk HA.\n    - replace a with (length ps) by lia. rewrite skipn_all. cbn [map args_loop].\n      rewrite zrange_nil by (unfold len_; lia). cbn [fold_left]. f_equal. destruct f; cbn in *; now rewrite HA.\n    - rewrite (skipn_nth_cons ast_field_zero ps a) by lia. cbn [map args_loop].\n      rewrite zrange_cons by (unfold len_; lia). cbn [fold_left]. unfold NN. set (FOLD := fold_left GG (zrange (Z.of_nat a + 1) (len_ ps))). unfold GG. cbv beta iota.\n      rewrite !index_nat. set (p := nth a ps ast_field_zero). cbn [pgroup_of pty_ pnames].\n      pose proof (SP (fld_type p)) as Hs. destruct (argType (pty_of (fld_type p))) as [ty|] eqn:AT.\n      + rewrite Hs.\n        repeat match goal with |- context [map_has ?m (key_of ty)] => destruct ty end;\n        repeat match goal with\n               | |- context [map_has ?m ?k] => let b := eval vm_compute in (map_has m k) in change (map_has m k) with b\n               | |- context [map_get ?z ?m ?k] => let b := eval vm_compute in (map_get z m k) in change (map_get z m k) with b\n               end; cbn [negb]; rewrite NAMES.\n        all: unfold FOLD; fold GG; replace (Z.of_nat a + 1)%Z with (Z.of_nat (S a)) by lia.\n        all: destruct (fld_names p) as [|n0 ns]; cbn [length Nat.eqb andb map].\n        all: try change (len_ (@nil string)) with 0%Z; try rewrite len_cons; try (pose proof (len_nonneg ns)).\n        all: match goal with |- context [Z.eqb ?x 0] => destruct (Z.eqb_spec x 0); try lia end.\n        all: match goal with |- match args_loop true ?r ?acc2 with _ => _ end =>\n               match goal with |- context [fold_left _ _ (_, ?f\')] =>\n                 let P := fresh "P" in\n                 assert (P : x_Function_Args f\' = map arg_of acc2);\n                 [ cbn [x_Function_Args x_Function_with_Args]; rewrite HA, ?app_nil_r, ?map_app; unfold len_; rewrite ?map_length, ?strconv_Itoa_nat;\n                   cbn [map arg_of fst snd aty_text]; rewrite ?map_map; reflexivity\n                 | specialize (IH (S a) f\' acc2 ltac:(lia) P); unfold NN in IH ] end end.\n        all: match goal with |- match ?m with _ => _ end => destruct m end; [rewrite IH; reflexivity|exact IH].\n      + (* no key of argTypes: the error return *)\n        assert (NK : forall m : gomap string, map fst m = ["string"; "int"; "&{time Duration}"; "bool"] -> map_has m (sp (fld_type p)) = false).\n        { intros m Hm. destruct m as [|[k1 v1] [|[k2 v2] [|[k3 v3] [|[k4 v4] [|? ?]]]]]; try discriminate. injection Hm as -> -> -> ->.\n          cbn [map_has]. repeat match goal with |- context [String.eqb ?x ?y] => let E := fresh "E" in destruct (String.eqb_spec x y) as [E|E]; [exfalso; apply Hs; rewrite E; cbn; tauto|] end. reflexivity. }\n        rewrite NK by reflexivity. cbn [negb]. unfold FOLD. rewrite RET. eexists _, _. split; [reflexivity|cbn; discriminate]. }\n  subst NN. cbv beta in LOOP. rewrite skipn_map.\n  set (f0 := x_Function_with_IsError (x_Function_with_IsContext x_Function_zero isctx) iserr).\n  assert (A0 : (if isctx then 1 else 0) <= length ps).\n  { destruct isctx; [|lia]. destruct ps; [cbn in MC; discriminate|cbn; lia]. }\n  pose proof (LOOP (length ps - (if isctx then 1 else 0)) (if isctx then 1 else 0) f0 [] ltac:(lia) eq_refl) as L.\n  replace (if isctx then (0 + 1)%Z else 0%Z) with (Z.of_nat (if isctx then 1 else 0)) by (destruct isctx; reflexivity).\n  destruct (args_loop true (map pgroup_of (skipn (if isctx then 1 else 0) ps)) []) as [args|].\n  - rewrite L. reflexivity.\n  - destruct L as (r & st & -> & Hr). exact Hr.\nQed.\n',
        "search": """Import Classify.
Definition sp (e : ast_expr) : string :=
  match e with AIdent n => n | ASelector (AIdent p) s => ("&{" ++ p ++ " " ++ s ++ "}")%string | ASelector _ s => ("&{0xc000 " ++ s ++ "}")%string | AOther t => t end.
Definition tys := [AIdent "string"; AIdent "int"; ASelector (AIdent "time") "Duration"; AIdent "bool"; ASelector (AIdent "context") "Context"; AIdent "float64"; AIdent "error"].
Definition fields := flat_map (fun ty => map (fun ns => {| fld_names := ns; fld_type := ty |}) [[]; ["a"]; ["a"; "b"]]) tys.
Definition plists := words_upto fields 2.
Definition rlists : list ast_fieldlist := [None; Some [{| fld_names := []; fld_type := AIdent "error" |}]; Some [{| fld_names := []; fld_type := AIdent "int" |}]].
Definition grid := pairs (pairs plists rlists) [false; true].
Definition ft_of (x : list ast_field * ast_fieldlist * bool) : ast_functype := {| ft_typeparams := None; ft_params := Some (fst (fst x)); ft_results := snd (fst x) |}.
Definition show_f (f : ast_field) : string := (String.concat "," (fld_names f) ++ " " ++ sp (fld_type f))%string.
Definition show_l (l : ast_fieldlist) : list string := match l with None => ["<nil>"] | Some fs => map show_f fs end.
Definition show_x (r : x_Function * option string) : list string :=
  if is_nil (snd r) then (if x_Function_IsContext (fst r) then "ctx" else "no ctx") :: (if x_Function_IsError (fst r) then "err" else "no err")
       :: map (fun a => (x_Arg_Name a ++ " " ++ x_Arg_Type a)%string) (x_Function_Args (fst r)) else ["error"].
Definition aty_text (a : aty) : string := match a with AString => "string" | AInt => "int" | ABool => "bool" | ADur => "time.Duration" end.
Definition show_m (m : option function) : list string :=
  match m with Some fn => (if f_isctx fn then "ctx" else "no ctx") :: (if f_iserr fn then "err" else "no err") :: map (fun a => (fst a ++ " " ++ aty_text (snd a))%string) (f_args fn) | None => ["error"] end.
Definition fdecl_of (generic : bool) (ft : ast_functype) : fdecl :=
  {| fname := ""; recv := None; tparams := generic; params := map pgroup_of (fieldlist_List (ft_params ft));
     res := map (rgroup_of sp) (fieldlist_List (ft_results ft)); fdoc := ""; fsyn := "" |}.
Definition D := Eval vm_compute in firstn 3 (diffs (list_eqb String.eqb)
  (fun x : list ast_field * ast_fieldlist * bool => [show_l (Some (fst (fst x))); show_l (snd (fst x)); [if snd x then "generic" else "not generic"]]) (fun r => r)
  (fun x => show_x (x_funcType sp (fun _ => snd x) (ft_of x))) (fun x => show_m (Classify.funcType (fdecl_of (snd x) (ft_of x)))) grid).
""",
        "args": ["parameters (names type)", "results", "type parameters"], "replay": None},
}


def _coq_term(text):
    """parse the Coq term Print shows for D (lists, tuples, string literals) into Python lists/tuples/strs"""
    toks = re.findall(r'"(?:[^"]|"")*"|[\[\]();,]|%\w+', text)
    pos = [0]

    def item():
        t = toks[pos[0]]
        pos[0] += 1
        if t.startswith('"'):
            return t[1:-1].replace('""', '"')
        close, sep = ("]", ";") if t == "[" else (")", ",")
        out = []
        while toks[pos[0]] != close:
            if toks[pos[0]] == sep:
                pos[0] += 1
                continue
            out.append(item())
        pos[0] += 1
        return out if t == "[" else tuple(out)
    toks = [t for t in toks if not t.startswith("%")]
    return item()


def _fn_fields(translated, struct):
    """names of the string fields of a translated Record, in the order <prefix>T_mk takes them"""
    m = re.search(r"Record x_%s := \{(.*?)\}\." % struct, translated, re.S)
    return [n for n, ty in re.findall(r"x_%s_(\w+) : ([^;}]+)" % struct, m.group(1)) if ty.strip() == "string"] if m else []


def _fn_input(it, translated, args):
    """the differing input, readable: argument name -> value"""
    out = {}
    for k, (name, val) in enumerate(zip(it["args"], args)):
        if name in ("Function", "Import"):
            out["%s#%d" % (name, k)] = dict(zip(_fn_fields(translated, name), val))
        elif name in ("i", "j"):
            out[name] = int(val[0])
        elif name in ("op", "prefix", "name", "goos", "goarch", "s", "goCmd", "runtime.GOOS", "f.Name", "doc.Synopsis(f.Doc)", "value / runtime.GOOS", "inv.Dir"):
            out[name] = val[0]
        else:
            out[name] = val
    return out


def _fn_replay(ctx, it, inp):
    """run the differing input on the real code where it is reachable through exported behaviour; None otherwise"""
    if it["replay"] is None:
        return None
    recs = [v for k, v in sorted(inp.items()) if "#" in k]
    if it["replay"] == "method":
        req = {"op": inp["op"], "f": recs[0]}
    elif it["replay"] == "Functions.Less":
        req = {"op": "Functions.Less", "fs": recs, "i": inp["i"], "j": inp["j"]}
    elif it["replay"] == "Imports.Less":
        req = {"op": "Imports.Less", "is": recs, "i": inp["i"], "j": inp["j"]}
    else:
        req = {"op": "joinArgs", "a": inp["a"], "b": inp["b"]}
    try:
        binp = os.path.join(ctx.tmp, "bin_purefn")
        if not os.path.exists(binp):
            go_build_harness(ctx, "purefn", tags=None)
        rc, out, err = sh([binp], input=json.dumps(req).encode(), timeout=60)
        ans = json.loads(out)
        return ans.get("result")
    except Exception as ex:          # the replay is an extra; the differing input on the translated function stands by itself
        ctx.log("purefn replay failed: %s" % ex)
        return None


def fn_tie(ctx, names):
    """names: a list of FN_ITEMS keys, or a property id ("C08"); the items whose "checks" name ctx.pid are added either way"""
    names = [] if isinstance(names, str) else list(names)
    names += [n for n, it in FN_ITEMS.items() if ctx.pid in it.get("checks", ()) and n not in names]
    if not names:
        return
    t0 = time.time()
    try:
        _fn_tie(ctx, names)
    finally:
        ctx.coverage["fn_tie_wall_s"] = round(ctx.coverage.get("fn_tie_wall_s", 0) + time.time() - t0, 2)


def _fn_tie(ctx, names):
    exb = os.path.join(ctx.tmp, "bin_extract")
    ex = exb if os.path.exists(exb) else go_build_harness(ctx, "extract", tags=None)
    cov = ctx.coverage.setdefault("fn_tie", {})
    jobs = []
    for n in names:
        it = FN_ITEMS[n]
        rc, out, err = sh([ex, "fn", os.path.join(REPO, it["file"]), it["names"], "x_"], timeout=60)
        if rc != 0:
            # fail-soft: a refactoring the translator does not understand; the behavioural tie alone decides
            msg = (err.strip() or "status %d" % rc)[:200]
            ctx.notes.append("harness/extract could not translate %s (%s); only the behavioural tie applies" % (n, msg))
            cov[n] = "untranslatable: " + msg
            continue
        jobs.append((n, it, out))
    if not jobs:
        return
    need = ["Proof/GoLib_facts", "Run/eval_GoLib"] + sorted({m.replace(".", "/") for _, it, _ in jobs
                                                             for m in re.findall(r"\b((?:Model|Proof)\.\w+)", it["requires"])})
    if not all(vo_ok(v) for v in need):
        ok, log = coq_make(targets=[v + ".vo" for v in need])
        if not ok:
            ctx.notes.append("fn_tie: the Coq files the agreement proofs need did not build (%s); only the behavioural tie applies" % log[-300:])
            for n, _, _ in jobs:
                cov[n] = "unproved-no-diff"
            return
    safe = lambda n: re.sub(r"\W", "_", n)

    def prove(job):
        n, it, out = job
        text = FN_HEADER + it["requires"] + out + it["defs"] + it["agree"] + "".join("Print Assumptions %s.\n" % t for t in it["theorems"])
        return ctx.coq_eval("fntie_%s_%s" % (ctx.pid, safe(n)), text, timeout=120)
    for (n, it, out), (rc, log) in zip(jobs, pmap(prove, jobs)):
        ctx.obligations += len(it["theorems"])
        if rc == 0 and log.count("Closed under the global context") == len(it["theorems"]):
            ctx.discharged += len(it["theorems"])
            cov[n] = "proved"
            ctx.trusted_base.append("harness/extract (Go -> Gallina translator, mode fn) + Base/GoLib.v: %s of %s translated on this run; %s proved for all inputs against %s"
                                    % (", ".join(it["src"]), it["file"], ", ".join(it["theorems"]), it["model"]))
            continue
        ctx.log("agreement proof for %s did not go through:\n%s" % (n, log[-600:]))
        text = FN_HEADER + it["requires"] + out + it["defs"] + it["search"] + "Definition N := Eval vm_compute in length grid.\nPrint D.\nPrint N.\n"
        rc2, log2 = ctx.coq_eval("fntie_%s_%s_search" % (ctx.pid, safe(n)), text, timeout=300)
        mD = re.search(r"D\s*=\s*(.*?)\n\s*:\s", log2, re.S)
        mN = re.search(r"N\s*=\s*(\d+)", log2)
        if rc2 != 0 or not mD or not mN:
            msg = re.sub(r"\s+", " ", log2)[-300:]
            ctx.notes.append("the translation of %s (or the statement about it) was not accepted by Coq (%s); only the behavioural tie applies" % (n, msg))
            cov[n] = "untranslatable: rejected by Coq: " + msg[-160:]
            continue
        found = _coq_term(mD.group(1))          # (white space inside string literals is data: not normalised)
        npts = int(mN.group(1))
        if not found:
            ctx.notes.append("agreement proof for %s did not go through on this run; no differing input on %d grid points; behavioural tie decides" % (n, npts))
            cov[n] = "unproved-no-diff"
            continue
        args, tres, mres = found[0]
        inp = _fn_input(it, out, args)
        go_res = _fn_replay(ctx, it, inp)
        if go_res is not None and go_res == mres and go_res != tres:
            # the real function agrees with the model and not with its translation: a translator fault, not a finding
            ctx.notes.append("harness/extract mistranslates %s: on %s the code returns %s, the translation %s; translation ignored, behavioural tie decides" % (n, inp, go_res, tres))
            cov[n] = "untranslatable: translator disagrees with the code"
            continue
        if it.get("advisory"):
            ctx.notes.append("%s no longer equals its reference reading (first differing input %s: %s vs %s); it feeds no observable of this property, so this is recorded only" % (n, inp, tres, mres))
            cov[n] = "differs (advisory: not property-relevant)"
            continue
        src = {}
        for f in it["src"]:
            rc3, s, _ = sh([ex, "src", os.path.join(REPO, it["file"]), f])
            src[f] = s if rc3 == 0 else None
        cov[n] = "differs"
        what = {"kind": "translated-function-differs",
                "theorem": "%s (%s %s, translated, against %s)" % (", ".join(it["theorems"]), it["file"], n, it["model"]),
                "translated": out, "differs_on": [{"input": _fn_input(it, out, a), "translated_result": t, "model_result": m} for a, t, m in found],
                "go_source": src, "input": inp, "translated_result": tres, "model_result": mres, "log": log[-600:]}
        if go_res is not None:
            what["go_result"] = go_res          # the real function called through its exported surface (harness/purefn)
            what["go_agrees_with_translation"] = (go_res == tres)
        else:
            what["note"] = "the function is not exported; the translated function is the code (its text is in go_source)"
        ctx.violation(what, found_input=True)
