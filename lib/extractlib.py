"""Mechanical ties between the source text and the models (DESIGN.md section 3.5): literal data of
/repo's CURRENT source (string constants, the two supported-type tables) is read by harness/extract
on every run and Coq re-proves, by reflexivity in a generated file, that it equals what the models
assume (Model/Tables.v; Proof/Tables_facts.v ties those expectations to the models' own functions).
Fail-soft: an item the extractor cannot find is recorded (extracted: false) and the behavioural tie
alone decides."""
import os
from vlib import *

ITEMS = {
    # name: (mode, file relative to the repo, Go identifier, Tables.v expectation)
    "mainfile": ("const", "mage/main.go", "mainfile", "expected_mainfile"),
    "initFile": ("const", "mage/main.go", "initFile", "expected_initFile"),
    "MagefilesDirName": ("const", "mage/main.go", "MagefilesDirName", "expected_MagefilesDirName"),
    "importTag": ("const", "parse/parse.go", "importTag", "expected_importTag"),
    "magicRebuildKey": ("const", "mage/main.go", "magicRebuildKey", "expected_magicRebuildKey"),
    "parse.argTypes": ("map", "parse/parse.go", "argTypes", "expected_parse_argTypes"),
    "mg.argTypes": ("map", "mg/fn.go", "argTypes", "expected_mg_argTypes"),
}


def _unq(s):
    import json
    return json.loads(s)          # the extractor prints Go-quoted ASCII strings; JSON reads them


def tables_tie(ctx, names):
    ex = go_build_harness(ctx, "extract", tags=None)
    defs, lemmas, done = [], [], []
    for n in names:
        mode, rel, ident, expect = ITEMS[n]
        rc, out, err = sh([ex, mode, os.path.join(REPO, rel), ident])
        if rc != 0:
            ctx.notes.append("harness/extract could not read %s (%s): only the behavioural tie applies" % (n, err.strip()[:160]))
            ctx.coverage.setdefault("extracted", {})[n] = False
            continue
        cn = "x_" + re.sub(r"\W", "_", n)
        if mode == "const":
            term = coq_str(_unq(out.strip()))
            ty = "string"
        else:
            rows = [l.split("\t") for l in out.splitlines() if l.strip()]
            term = coq_list(["(%s, %s)" % (coq_str(_unq(k)), coq_str(_unq(v))) for k, v in rows])
            ty = "list (string * string)"
        defs.append("Definition %s : %s := %s." % (cn, ty, term))
        lemmas.append("Lemma %s_agrees : %s = Tables.%s. Proof. reflexivity. Qed." % (cn, cn, expect))
        done.append(n)
        ctx.coverage.setdefault("extracted", {})[n] = True
    if not done:
        return
    ctx.obligations += len(done)
    text = "From Mage Require Import Base.Strs.\nFrom Mage Require Model.Tables Proof.Tables_facts.\n" + "\n".join(defs) + "\n" + "\n".join(lemmas) + "\n"
    ok, log = coq_make(targets=["Proof/Tables_facts.vo"])
    rc, log2 = ctx.coq_eval("extracted_tables_%s" % ctx.pid, text) if ok else (1, log)
    if rc == 0:
        ctx.discharged += len(done)
        ctx.trusted_base.append("harness/extract (literal data of the source): %s re-proved equal to Model/Tables.v on this run" % ", ".join(done))
    else:
        ctx.violation({"kind": "theorem-no-longer-checks", "theorem": "extracted literal data = Model/Tables.v (%s)" % ", ".join(done),
                       "extracted": defs, "log": log2[-1200:]}, found_input=False)
