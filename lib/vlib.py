"""Shared machinery of the /verif checks (see DESIGN.md sections 1 and 3).

A check is a Python module checks/cXX.py exposing run(ctx).  This library
gives it: a private temp directory, builds of mage / harnesses from /repo's
working tree, the Coq build (full .vo build behind a lock), a fresh coqc of the
Props file, evaluation of generated case files with vm_compute, evidence
writing, the VIOLATION / KNOWN-FINDING protocol and replay files.
"""
import os, sys, json, time, subprocess, tempfile, shutil, hashlib, random, fcntl, re, atexit

VERIF = os.path.dirname(os.path.dirname(os.path.abspath(__file__)))
REPO = os.environ.get("VERIF_REPO", "/repo")
COQ = os.path.join(VERIF, "coq")
NCPU = os.cpu_count() or 4
GUARD_TAG = "verif"
MAX_REPORTED = 12
# axioms that may appear under Print Assumptions: only ones the Coq standard library declares
STD_AXIOM_PREFIXES = ("Coq.", "classic", "functional_extensionality", "proof_irrelevance", "JMeq_eq", "Eqdep.Eq_rect_eq", "ClassicalDedekindReals.", "FunctionalExtensionality.", "Classical_Prop.", "ProofIrrelevance.")            # VIOLATION lines / replay files per run; further ones are counted only

GOENV = {
    "GOFLAGS": "-mod=mod", "GOPROXY": "off", "GOSUMDB": "off", "GOTOOLCHAIN": "local",
    "CGO_ENABLED": "0",
}


def goenv(extra=None):
    e = dict(os.environ)
    e.update(GOENV)
    # the caller's MAGEFILE_* / GOOS / GOARCH must not leak into builds
    for k in list(e):
        if k.startswith("MAGEFILE_") or k in ("GOOS", "GOARCH"):
            del e[k]
    if extra:
        e.update(extra)
    return e


def sh(cmd, cwd=None, env=None, timeout=600, input=None, check=False):
    """run a command, return (rc, stdout, stderr) as text (bytes decoded latin-1 safe)."""
    try:
        p = subprocess.run(cmd, cwd=cwd, env=env, timeout=timeout, input=input,
                           stdout=subprocess.PIPE, stderr=subprocess.PIPE)
        rc, out, err = p.returncode, p.stdout, p.stderr
    except subprocess.TimeoutExpired as ex:
        rc, out, err = 124, ex.stdout or b"", (ex.stderr or b"") + b"\n[timeout]"
    out = out.decode("utf-8", "replace")
    err = err.decode("utf-8", "replace")
    if check and rc != 0:
        raise RuntimeError("command failed (%d): %s\n%s\n%s" % (rc, cmd, out[-2000:], err[-4000:]))
    return rc, out, err


# ---------------------------------------------------------------- Coq terms
def coq_str(b):
    """Coq term of type string for arbitrary bytes."""
    if isinstance(b, str):
        b = b.encode("utf-8", "surrogateescape")
    if all(32 <= c < 127 for c in b):
        return '"' + b.decode("ascii").replace('"', '""') + '"'
    return "(bs [" + ";".join(str(c) for c in b) + "])"


def coq_list(items):
    return "[" + "; ".join(items) + "]"


def coq_bool(b):
    return "true" if b else "false"


def coq_Z(n):
    return "(%d)%%Z" % n


def coq_opt(x):
    return "None" if x is None else "(Some %s)" % x


# ---------------------------------------------------------------- context
class Ctx:
    def __init__(self, pid, tier, seed, replay=None):
        self.pid = pid
        self.tier = tier
        self.seed = seed
        self.replay = replay
        self.t0 = time.time()
        self.rng = random.Random(hashlib.sha256(("%s/%d" % (pid, seed)).encode()).digest())
        base = os.environ.get("TMPDIR") or "/tmp"
        self.tmp = tempfile.mkdtemp(prefix="verif-%s-" % pid, dir=base)
        atexit.register(self._cleanup)
        self.violations = []      # (replay_path, suffix)
        self.known = []
        self.coverage = {"samples": []}
        self.assumptions = []
        self.trusted_base = []
        self.obligations = 0
        self.discharged = 0
        self.notes = []
        self.known_findings = load_known_findings()
        self.quick = (tier == "quick")

    def _cleanup(self):
        if os.environ.get("VERIF_KEEP_TMP"):
            sys.stderr.write("[keeping %s]\n" % self.tmp)
            return
        # go module cache files are read-only
        subprocess.run(["chmod", "-R", "u+w", self.tmp], stderr=subprocess.DEVNULL)
        shutil.rmtree(self.tmp, ignore_errors=True)

    def log(self, *a):
        sys.stderr.write("[%s %.1fs] %s\n" % (self.pid, time.time() - self.t0, " ".join(str(x) for x in a)))
        sys.stderr.flush()

    # ------------------------------------------------------------ results
    def sample(self, s, limit=6):
        if len(self.coverage["samples"]) < limit:
            self.coverage["samples"].append(s)

    def add(self, key, n=1):
        self.coverage[key] = self.coverage.get(key, 0) + n

    def write_replay(self, data):
        d = os.path.join(VERIF, "replays")
        os.makedirs(d, exist_ok=True)
        blob = json.dumps(data, sort_keys=True, indent=1, default=str)
        h = hashlib.sha1(blob.encode()).hexdigest()[:12]
        path = os.path.join(d, "%s-%s.json" % (self.pid, h))
        with open(path, "w") as f:
            f.write(blob)
        return path

    def violation(self, what, case=None, found_input=True, extra=None):
        """Report a violation, unless a `known` finding matches it.

        what: dict describing the failure; what['kind'] is matched against known findings.
        """
        kf = self.match_known(what)
        if kf is not None:
            key = kf.get("id") or kf.get("what")
            if key not in [k.get("id") or k.get("what") for k in self.known]:
                self.known.append(kf)
            return None
        if len(self.violations) >= MAX_REPORTED:
            # enough concrete replays; the rest are only counted (evidence: violations_not_reported)
            self.coverage["violations_not_reported"] = self.coverage.get("violations_not_reported", 0) + 1
            return None
        data = {"property": self.pid, "tier": self.tier, "seed": self.seed,
                "what": what, "case": case, "failing_input_found": found_input}
        if extra:
            data.update(extra)
        path = self.write_replay(data)
        self.violations.append((path, "" if found_input else " no-failing-input-found"))
        self.log("VIOLATION", json.dumps(what, default=str)[:600])
        return path

    def match_known(self, what):
        for kf in self.known_findings:
            if kf.get("status") != "known" or kf.get("property") != self.pid:
                continue
            m = kf.get("match", {})
            if all(what.get(k) == v for k, v in m.items()):
                return kf
        return None

    def finish(self, level="proof"):
        cov = self.coverage
        cov.setdefault("evaluations", 0)
        cov.setdefault("distinct_nontrivial", 0)
        cov.setdefault("rule", "")
        cov["obligations"] = self.obligations
        cov["discharged"] = self.discharged
        cov.setdefault("checker_cmd", "make -C coq (coq_makefile, full .vo build) && coqc -Q coq Mage coq/Props/%s.v" % self.pid)
        cov["trusted_base"] = self.trusted_base
        if self.notes:
            cov["notes"] = self.notes
        # keep the evidence valid against /root/.vp/EVIDENCE.schema.json whatever a check put into the typed keys
        for k in ("evaluations", "distinct_nontrivial", "states", "transitions", "traces_validated_against_impl",
                  "obligations", "discharged", "programs", "disagreements_checked"):
            if k in cov and not (isinstance(cov[k], int) and not isinstance(cov[k], bool) and cov[k] >= 0):
                cov[k + "_note"] = cov[k]
                try:
                    cov[k] = max(0, int(cov[k + "_note"]))
                except Exception:
                    del cov[k]
        for k in ("rule", "checker_cmd", "explanation"):
            if k in cov and not isinstance(cov[k], str):
                cov[k] = json.dumps(cov[k], default=str)
        if "exhaustive" in cov and not isinstance(cov["exhaustive"], bool):
            if cov["exhaustive"] is not None:
                cov["exhaustive_part"] = cov["exhaustive"]      # text saying WHICH finite part was enumerated completely
            del cov["exhaustive"]
        if "samples" in cov and not isinstance(cov["samples"], list):
            cov["samples"] = [cov["samples"]]
        cov["trusted_base"] = [t if isinstance(t, str) else json.dumps(t, default=str) for t in cov["trusted_base"]]
        self.assumptions = [a if isinstance(a, str) else json.dumps(a, default=str) for a in self.assumptions]
        ev = {"property_id": self.pid, "tier": self.tier, "seed": self.seed, "level": level,
              "coverage": cov, "assumptions": self.assumptions,
              "wall_s": round(time.time() - self.t0, 2), "violations": len(self.violations),
              "known_findings_seen": [k.get("what") for k in self.known]}
        evdir = os.environ.get("VERIF_EVIDENCE_DIR") or os.path.join(VERIF, "evidence")   # (seed testing redirects it)
        os.makedirs(evdir, exist_ok=True)
        with open(os.path.join(evdir, self.pid + ".json"), "w") as f:
            json.dump(ev, f, indent=1, sort_keys=True, default=str)
        for k in self.known:
            print("KNOWN-FINDING: property=%s %s" % (self.pid, k.get("what")))
        for path, suffix in self.violations:
            print("VIOLATION property=%s replay=%s%s" % (self.pid, path, suffix))
        if not self.violations:
            print("OK property=%s tier=%s obligations=%d/%d evaluations=%d wall=%.0fs" % (
                self.pid, self.tier, self.discharged, self.obligations, cov.get("evaluations", 0), time.time() - self.t0))
        sys.stdout.flush()
        return 1 if self.violations else 0

    # ------------------------------------------------------------ Coq
    def coq_build(self, targets=None):
        """Full .vo build of the development (incremental, behind a lock). Returns (ok, log).

        ok is about the closure of this property's own files only (Props/<pid>.vo, Run/eval_*.vo
        named in targets): a sibling property whose proof file is broken does not take this one down."""
        targets = targets or ["Props/%s.vo" % self.pid]
        ok, log = coq_make(clean=False, targets=targets)
        if not ok:
            self.log("coq build FAILED")
        return ok, log

    def prove(self, targets=None, extra_props=()):
        """The standard first step of every check: build, fresh coqc of Props/<pid>.v, report.

        extra_props: further statement files (Props/<name>.v, e.g. the composition theorems that
        link this property's model to another one's) that this check re-checks as well."""
        targets = list(targets or ["Props/%s.vo" % self.pid]) + ["Props/%s.vo" % n for n in extra_props]
        # source audit of the whole development (tools/audit.py): no Admitted/Axiom/Parameter/..., no
        # Variable/Hypothesis outside a Section, no kernel-weakening switch
        sys.path.insert(0, os.path.join(VERIF, "tools"))
        import audit as _audit
        hits, nvars, nfiles = _audit.audit()
        self.obligations += 1
        self.coverage["source_audit"] = {"files": nfiles, "section_variables": nvars, "problems": hits[:20]}
        if hits:
            self.violation({"kind": "development-audit-failed", "problems": hits[:50]}, found_input=False)
        else:
            self.discharged += 1
        ok_build, log = self.coq_build(targets)
        props_ok, pout = (False, log)
        if ok_build:
            props_ok, pout = self.coq_props()
            for n in extra_props:
                ok2, out2 = self.coq_props(n)
                if not ok2:
                    props_ok, pout = False, out2
        if not props_ok:
            self.violation({"kind": "theorem-no-longer-checks", "file": "coq/Props/%s.v" % self.pid, "log": pout[-1500:]}, found_input=False)
        self.trusted_base.append("Coq 8.16.1 kernel + vm_compute (no native_compute)")
        if props_ok and not self.quick:
            # thorough tier: the independent checker re-checks the compiled closure of the property's theorems
            rc, out, err = sh(["coqchk", "-silent", "-o", "-Q", COQ, "Mage", "Mage.Props.%s" % self.pid], timeout=3000)
            m = re.search(r"\* Axioms:(.*?)\n\s*\n", out + err, re.S)
            self.coverage["coqchk"] = {"rc": rc, "axioms": re.sub(r"\s+", " ", m.group(1)).strip() if m else "?"}
            self.obligations += 1
            if rc == 0:
                self.discharged += 1
                self.trusted_base.append("coqchk -o re-checked Mage.Props.%s and its closure: axioms %s" % (self.pid, self.coverage["coqchk"]["axioms"]))
            else:
                self.violation({"kind": "theorem-no-longer-checks", "file": "coqchk Mage.Props.%s" % self.pid, "log": (out + err)[-1500:]}, found_input=False)
        return props_ok

    def coq_props(self, pid=None, deps_ok=True):
        """Fresh coqc of Props/<pid>.v; fills obligations/discharged/trusted_base.

        Returns (ok, output)."""
        pid = pid or self.pid
        src = os.path.join(COQ, "Props", pid + ".v")
        text = open(src).read()
        names = re.findall(r"^\s*Print Assumptions\s+([\w.']+)\s*\.", text, re.M)
        thms = re.findall(r"^\s*(?:Theorem|Corollary|Lemma|Example)\s+([\w']+)", text, re.M)
        self.obligations += len(thms)
        os.makedirs(os.path.join(self.tmp, "props"), exist_ok=True)
        out_vo = os.path.join(self.tmp, "props", "%s.vo" % pid)
        rc, out, err = sh(["coqc", "-Q", COQ, "Mage", "-o", out_vo, src], timeout=900)
        if rc != 0:
            self.log("Props/%s.v FAILED:\n%s" % (pid, (out + err)[-3000:]))
            return False, out + err
        self.discharged += len(thms)
        # split Print Assumptions outputs
        blocks = re.split(r"(?m)^(?=Closed under the global context|Axioms:|Section Variables:)", out)
        blocks = [b.strip() for b in blocks if b.strip()]
        blocks = [b for b in blocks if b.startswith(("Closed", "Axioms", "Section"))]
        bad = []
        for i, n in enumerate(names):
            b = blocks[i] if i < len(blocks) else "?"
            b = re.sub(r"\s+", " ", b)
            self.trusted_base.append("Print Assumptions %s: %s" % (n, b[:400]))
            if not b.startswith("Closed under the global context"):
                # only axioms the standard library itself declares may appear (none does at present)
                used = re.findall(r"([\w.']+)\s*:", b[len("Axioms:"):] if b.startswith("Axioms:") else b)
                if b == "?" or any(not u.startswith(STD_AXIOM_PREFIXES) for u in used) or not used:
                    bad.append("%s: %s" % (n, b[:300]))
        if len(names) < len(thms):
            bad.append("%d statements but only %d Print Assumptions" % (len(thms), len(names)))
        if bad:
            self.log("Props/%s.v: assumptions not allowed:\n%s" % (pid, "\n".join(bad)))
            self.discharged -= len(thms)
            return False, "assumptions: " + "; ".join(bad)
        return True, out

    def coq_eval(self, name, text, timeout=900):
        """Write <tmp>/<name>.v and run coqc on it. Returns (rc, stdout+stderr)."""
        path = os.path.join(self.tmp, name + ".v")
        with open(path, "w") as f:
            f.write(text)
        rc, out, err = sh(["coqc", "-Q", COQ, "Mage", path], cwd=self.tmp, timeout=timeout)
        return rc, out + err

    def coq_eval_shards(self, name, header, items, per_shard=400, fmt=None, timeout=900):
        """items: list of Coq terms (strings) of one case type. Evaluates
        `mismatches cases` (must be defined by the header's imports) per shard in parallel.

        Returns list of (global_index, model_output_text) mismatches, or raises on coqc failure.
        The header must define:  mismatches : list case -> list (nat * X).
        """
        shards = [items[i:i + per_shard] for i in range(0, len(items), per_shard)] or [[]]
        procs = []
        for si, sh_items in enumerate(shards):
            text = header + "\nDefinition cases := [\n" + ";\n".join(sh_items) + "\n].\n"
            text += "Definition M := Eval vm_compute in mismatches cases.\nPrint M.\n"
            path = os.path.join(self.tmp, "%s_%d.v" % (name, si))
            with open(path, "w") as f:
                f.write(text)
            procs.append((si, path))
        results = run_parallel([["coqc", "-Q", COQ, "Mage", p] for _, p in procs], cwd=self.tmp, timeout=timeout)
        mism = []
        for (si, path), (rc, out, err) in zip(procs, results):
            if rc != 0:
                raise CoqEvalError("coqc failed on %s:\n%s" % (path, (out + err)[-3000:]))
            m = re.search(r"M\s*=\s*(.*?)\n\s*:\s", out, re.S)
            if not m:
                raise CoqEvalError("cannot parse coqc output of %s:\n%s" % (path, out[-2000:]))
            body = re.sub(r"\s+", " ", m.group(1)).strip()
            if body == "[]":
                continue
            # entries look like (idx, ...) ; extract leading indices
            for mm in re.finditer(r"\((\d+)(?:%nat)?,\s*", body):
                mism.append((si * per_shard + int(mm.group(1)), body[:3000]))
        return mism


class CoqEvalError(Exception):
    pass


def run_parallel(cmds, cwd=None, env=None, timeout=900, jobs=None):
    """Run commands with at most `jobs` in parallel; returns list of (rc,out,err)."""
    from concurrent.futures import ThreadPoolExecutor
    jobs = jobs or NCPU
    with ThreadPoolExecutor(max_workers=jobs) as ex:
        return list(ex.map(lambda c: sh(c, cwd=cwd, env=env, timeout=timeout), cmds))


def pmap(fn, items, jobs=None):
    from concurrent.futures import ThreadPoolExecutor
    jobs = jobs or NCPU
    with ThreadPoolExecutor(max_workers=jobs) as ex:
        return list(ex.map(fn, items))


# ---------------------------------------------------------------- Coq build
def coq_project_files():
    out = []
    for sub in ("Base", "Model", "Proof", "Props", "Run"):
        d = os.path.join(COQ, sub)
        if os.path.isdir(d):
            for f in sorted(os.listdir(d)):
                if f.endswith(".v") and not f.startswith("."):
                    out.append("%s/%s" % (sub, f))
    return out


def coq_make(clean=False, timeout=3000, targets=None):
    """(Re)generate _CoqProject + Makefile and run a full .vo build under a lock.

    With targets: the whole development is built with -k first (result ignored), then the named
    targets are (re)made and only their status is returned."""
    lockf = open(os.path.join(COQ, ".lock"), "w")
    fcntl.flock(lockf, fcntl.LOCK_EX)
    try:
        proj = "-Q . Mage\n-arg -w -arg -notation-overridden,-deprecated\n" + "\n".join(coq_project_files()) + "\n"
        pp = os.path.join(COQ, "_CoqProject")
        old = open(pp).read() if os.path.exists(pp) else None
        if old != proj or not os.path.exists(os.path.join(COQ, "Makefile.coq")):
            with open(pp, "w") as f:
                f.write(proj)
            sh(["coq_makefile", "-f", "_CoqProject", "-o", "Makefile.coq"], cwd=COQ, check=True)
        if clean:
            sh(["make", "-f", "Makefile.coq", "clean"], cwd=COQ, timeout=300)
        rc, out, err = sh(["make", "-f", "Makefile.coq", "-j%d" % NCPU, "-k"], cwd=COQ, timeout=timeout)
        if targets and rc != 0:
            rc, out, err = sh(["make", "-f", "Makefile.coq", "-j%d" % NCPU] + list(targets), cwd=COQ, timeout=timeout)
        return rc == 0, out[-6000:] + err[-6000:]
    finally:
        fcntl.flock(lockf, fcntl.LOCK_UN)
        lockf.close()


def vo_ok(relpath):
    """Is coq/<relpath>.vo present and not older than its source? (after coq_make -k)"""
    v = os.path.join(COQ, relpath + ".v")
    vo = os.path.join(COQ, relpath + ".vo")
    return os.path.exists(vo) and os.path.getmtime(vo) >= os.path.getmtime(v)


# ---------------------------------------------------------------- Go builds
def go_build_harness(ctx, name, tags=GUARD_TAG, race=False, out=None):
    """Build harness/<name> (its go.mod replaces mage by /repo) into the ctx temp dir."""
    src = os.path.join(VERIF, "harness", name)
    dst = os.path.join(ctx.tmp, "src_" + name)
    if os.path.exists(dst):
        shutil.rmtree(dst)
    shutil.copytree(src, dst)
    gm = os.path.join(dst, "go.mod")
    if os.path.exists(gm):
        t = open(gm).read().replace("=> /repo", "=> " + REPO)
        open(gm, "w").write(t)
    gen = os.path.join(dst, "gen.py")
    if os.path.exists(gen):
        sh([sys.executable, gen], cwd=dst, check=True)
    out = out or os.path.join(ctx.tmp, "bin_" + name)
    cmd = ["go", "build", "-o", out]
    if tags:
        cmd += ["-tags", tags]
    if race:
        cmd += ["-race"]
    env = goenv({"CGO_ENABLED": "1"} if race else None)
    rc, o, e = sh(cmd + ["."], cwd=dst, env=env, timeout=900)
    if rc != 0:
        raise BuildError("go build of harness %s failed:\n%s" % (name, (o + e)[-4000:]))
    return out


def go_build_mage(ctx):
    """Build the mage binary from /repo's working tree."""
    out = os.path.join(ctx.tmp, "mage")
    if os.path.exists(out):
        return out
    rc, o, e = sh(["go", "build", "-tags", GUARD_TAG, "-o", out, "."], cwd=REPO, env=goenv(), timeout=900)
    if rc != 0:
        raise BuildError("go build of mage failed:\n%s" % ((o + e)[-4000:]))
    return out


class BuildError(Exception):
    pass


# ---------------------------------------------------------------- findings
def load_known_findings():
    p = os.path.join(VERIF, "known_findings.json")
    if not os.path.exists(p):
        return []
    return json.load(open(p)).get("findings", [])


def case_hash(obj):
    return hashlib.sha1(json.dumps(obj, sort_keys=True, default=str).encode()).hexdigest()
