(* Feasibility prototype of the dependency-engine model (DESIGN 4.0). *)
From Coq Require Import List Arith ZArith Lia Bool.
Import ListNotations.

Definition key := nat.
Definition msg := list nat.          (* lines *)

Inductive outcome := Ok | Err (code : Z) (m : msg) | PanicErr (code : Z) (m : msg) | PanicVal (m : msg).
Inductive style := Par | Ser.
Inductive ctxsel := Bg | Fwd.
Inductive ctx := CBg | CRoot.

Record call := { c_style : style; c_ctx : ctxsel; c_deps : list key; c_guarded : bool }.
Record body := { b_calls : list call; b_result : outcome }.

Inductive tid := TRoot (n : nat) | TBody (k : key).

Record prog := { bodies : key -> body; roots : nat -> option (list call * ctx) }.

(* result as seen by a requester *)
Inductive res := RNil | RErr (code : Z) (m : msg) | RPanic (code : Z) (m : msg).

Definition res_of (o : outcome) : res :=
  match o with
  | Ok => RNil
  | Err c m => RErr c m
  | PanicErr c m => RPanic c m
  | PanicVal m => RPanic 1 m
  end.

(* what onceFun hands to LATER callers. [fixed = false] is the pinned tree. *)
Definition remember (fixed : bool) (r : res) : res :=
  match r with
  | RPanic c m => if fixed then RPanic c m else RNil
  | _ => r
  end.

Definition changeExit (old new : Z) : Z :=
  if Z.eqb new 0 then old else if Z.eqb old 0 then new else if Z.eqb old new then old else 1%Z.

Inductive cellst := NotStarted | Running | Done (r : res).

(* rounds of a call: one runDeps invocation each *)
Definition rounds (c : call) : list (list key) :=
  match c_style c with
  | Par => [c_deps c]
  | Ser => map (fun d => [d]) (c_deps c)
  end.

Inductive gst := GAtOnce | GRunning | GHas (r : res) | GFinished.

Record rd := {                       (* state of the active runDeps of a task *)
  rd_members : list key;
  rd_gs : list gst;                  (* goroutines spawned so far, in order *)
  rd_errs : msg;
  rd_nerr : nat;
  rd_exit : Z;
}.

Inductive phase :=
| PIdle                              (* between calls *)
| PRound (r : nat) (st : rd)         (* inside round r of call pc *)
| PFinished.

Record task := { t_pc : nat; t_phase : phase; t_ctx : ctx }.

Inductive event :=
| BodyStart (k : key) (c : ctx)
| BodyEnd (k : key) (o : res)
| CallEnter (t : tid) (pc : nat)
| CallReturn (t : tid) (pc : nat)
| CallPanic (t : tid) (pc : nat) (exit : Z) (m : msg).

Record cfg := {
  cells : key -> cellst;
  tasks : tid -> option task;
}.

Definition tid_eqb (a b : tid) : bool :=
  match a, b with
  | TRoot x, TRoot y => Nat.eqb x y
  | TBody x, TBody y => Nat.eqb x y
  | _, _ => false
  end.

Lemma tid_eqb_spec a b : reflect (a = b) (tid_eqb a b).
Proof.
  destruct a, b; simpl; try (constructor; congruence);
    destruct (Nat.eqb_spec n n0) || destruct (Nat.eqb_spec k k0); constructor; congruence.
Qed.

Definition updc (f : key -> cellst) (k : key) (v : cellst) : key -> cellst :=
  fun k' => if Nat.eqb k' k then v else f k'.
Definition updt (f : tid -> option task) (t : tid) (v : option task) : tid -> option task :=
  fun t' => if tid_eqb t' t then v else f t'.

Definition calls_of (p : prog) (t : tid) : list call :=
  match t with
  | TRoot n => match roots p n with Some (cs, _) => cs | None => [] end
  | TBody k => b_calls (bodies p k)
  end.

Inductive action :=
| ATask (t : tid)                    (* the task's own next step *)
| AGo (t : tid) (j : nat).           (* goroutine j of t's active round *)

Definition init (p : prog) : cfg :=
  {| cells := fun _ => NotStarted;
     tasks := fun t => match t with
                       | TRoot n => match roots p n with
                                    | Some (_, c) => Some {| t_pc := 0; t_phase := PIdle; t_ctx := c |}
                                    | None => None
                                    end
                       | TBody _ => None
                       end |}.

Definition new_rd (ms : list key) : rd :=
  {| rd_members := ms; rd_gs := []; rd_errs := []; rd_nerr := 0; rd_exit := 0%Z |}.

Definition all_finished (gs : list gst) : bool :=
  forallb (fun g => match g with GFinished => true | _ => false end) gs.

Fixpoint set_nth {A} (l : list A) (n : nat) (v : A) : list A :=
  match l, n with
  | [], _ => []
  | _ :: xs, O => v :: xs
  | x :: xs, S n' => x :: set_nth xs n' v
  end.

Definition child_ctx (c : call) (parent : ctx) : ctx :=
  match c_ctx c with Bg => CBg | Fwd => parent end.

(* finish the current task after its last call or after an unguarded panic *)
Definition finish (p : prog) (s : cfg) (t : tid) (tk : task) (o : res) : cfg * list event :=
  match t with
  | TRoot _ =>
      ({| cells := cells s;
          tasks := updt (tasks s) t (Some {| t_pc := t_pc tk; t_phase := PFinished; t_ctx := t_ctx tk |}) |}, [])
  | TBody k =>
      ({| cells := updc (cells s) k (Done o);
          tasks := updt (tasks s) t (Some {| t_pc := t_pc tk; t_phase := PFinished; t_ctx := t_ctx tk |}) |},
       [BodyEnd k o])
  end.

Section Step.
Variable fixed : bool.
Variable p : prog.

Definition set_phase (s : cfg) (t : tid) (tk : task) (pc : nat) (ph : phase) : cfg :=
  {| cells := cells s;
     tasks := updt (tasks s) t (Some {| t_pc := pc; t_phase := ph; t_ctx := t_ctx tk |}) |}.

Definition step_task (s : cfg) (t : tid) : option (cfg * list event) :=
  match tasks s t with
  | None => None
  | Some tk =>
    match t_phase tk with
    | PFinished => None
    | PIdle =>
        match nth_error (calls_of p t) (t_pc tk) with
        | None =>      (* body done *)
            Some (finish p s t tk (match t with TBody k => res_of (b_result (bodies p k)) | _ => RNil end))
        | Some c =>
            match rounds c with
            | [] => Some (set_phase s t tk (S (t_pc tk)) PIdle, [CallEnter t (t_pc tk); CallReturn t (t_pc tk)])
            | ms :: _ => Some (set_phase s t tk (t_pc tk) (PRound 0 (new_rd ms)), [CallEnter t (t_pc tk)])
            end
        end
    | PRound r st =>
        match nth_error (calls_of p t) (t_pc tk) with
        | None => None
        | Some c =>
          if Nat.ltb (length (rd_gs st)) (length (rd_members st)) then
            (* LoadOrStore + spawn the next goroutine (the cell exists implicitly: NotStarted) *)
            Some (set_phase s t tk (t_pc tk)
                    (PRound r {| rd_members := rd_members st; rd_gs := rd_gs st ++ [GAtOnce];
                                 rd_errs := rd_errs st; rd_nerr := rd_nerr st; rd_exit := rd_exit st |}), [])
          else if all_finished (rd_gs st) then
            (* wg.Wait() returns *)
            if Nat.eqb (rd_nerr st) 0 then
              match nth_error (rounds c) (S r) with
              | Some ms => Some (set_phase s t tk (t_pc tk) (PRound (S r) (new_rd ms)), [])
              | None => Some (set_phase s t tk (S (t_pc tk)) PIdle, [CallReturn t (t_pc tk)])
              end
            else
              let ev := CallPanic t (t_pc tk) (rd_exit st) (rd_errs st) in
              if c_guarded c then Some (set_phase s t tk (S (t_pc tk)) PIdle, [ev])
              else let '(s', evs) := finish p s t tk (RPanic (rd_exit st) (rd_errs st)) in Some (s', ev :: evs)
          else None
        end
    end
  end.

Definition status (r : res) : Z :=
  match r with RNil => 0%Z | RErr c _ => c | RPanic c _ => c end.
Definition message (r : res) : msg :=
  match r with RNil => [] | RErr _ m => m | RPanic _ m => m end.
Definition is_nil (r : res) : bool := match r with RNil => true | _ => false end.

Definition step_go (s : cfg) (t : tid) (j : nat) : option (cfg * list event) :=
  match tasks s t with
  | None => None
  | Some tk =>
    match t_phase tk with
    | PRound r st =>
      match nth_error (calls_of p t) (t_pc tk), nth_error (rd_members st) j, nth_error (rd_gs st) j with
      | Some c, Some k, Some g =>
        let setg g' errs nerr ex :=
          set_phase s t tk (t_pc tk)
            (PRound r {| rd_members := rd_members st; rd_gs := set_nth (rd_gs st) j g';
                         rd_errs := errs; rd_nerr := nerr; rd_exit := ex |}) in
        match g with
        | GAtOnce =>
            match cells s k with
            | NotStarted =>
                let s1 := setg GRunning (rd_errs st) (rd_nerr st) (rd_exit st) in
                Some ({| cells := updc (cells s1) k Running;
                         tasks := updt (tasks s1) (TBody k)
                                    (Some {| t_pc := 0; t_phase := PIdle; t_ctx := child_ctx c (t_ctx tk) |}) |},
                      [BodyStart k (child_ctx c (t_ctx tk))])
            | Running => None                                      (* blocked in once.Do *)
            | Done r0 => Some (setg (GHas (remember fixed r0)) (rd_errs st) (rd_nerr st) (rd_exit st), [])
            end
        | GRunning =>
            match cells s k with
            | Done r0 => Some (setg (GHas r0) (rd_errs st) (rd_nerr st) (rd_exit st), [])   (* the winner sees the real outcome *)
            | _ => None
            end
        | GHas r0 =>
            if is_nil r0 then Some (setg GFinished (rd_errs st) (rd_nerr st) (rd_exit st), [])
            else Some (setg GFinished (rd_errs st ++ message r0) (S (rd_nerr st)) (changeExit (rd_exit st) (status r0)), [])
        | GFinished => None
        end
      | _, _, _ => None
      end
    | _ => None
    end
  end.

Definition step (s : cfg) (a : action) : option (cfg * list event) :=
  match a with
  | ATask t => step_task s t
  | AGo t j => step_go s t j
  end.

Fixpoint run (s : cfg) (acts : list action) : option (cfg * list event) :=
  match acts with
  | [] => Some (s, [])
  | a :: rest =>
      match step s a with
      | None => None
      | Some (s', ev) =>
          match run s' rest with
          | None => None
          | Some (s'', evs) => Some (s'', ev ++ evs)
          end
      end
  end.

End Step.
