From Coq Require Import List Arith ZArith Lia Bool.
Import ListNotations.
Require Import Deps.

Section P.
Variable fixed : bool.
Variable p : prog.

Inductive reach : cfg -> list event -> Prop :=
| reach_init : reach (init p) []
| reach_step s tr a s' ev : reach s tr -> step fixed p s a = Some (s', ev) -> reach s' (tr ++ ev).

Lemma run_reach : forall acts s tr s' tr', reach s tr -> run fixed p s acts = Some (s', tr') -> reach s' (tr ++ tr').
Proof.
  induction acts as [|a acts IH]; simpl; intros s tr s' tr' R H.
  - inversion H; subst. rewrite app_nil_r. exact R.
  - destruct (step fixed p s a) as [[s1 ev]|] eqn:E; [|discriminate].
    destruct (run fixed p s1 acts) as [[s2 evs]|] eqn:E2; [|discriminate].
    inversion H; subst. rewrite app_assoc. eapply IH; [|exact E2]. econstructor; eauto.
Qed.

Definition is_start (k : key) (e : event) : bool :=
  match e with BodyStart k' _ => Nat.eqb k' k | _ => false end.
Definition nstart k tr := length (filter (is_start k) tr).

Lemma nstart_app k a b : nstart k (a ++ b) = nstart k a + nstart k b.
Proof. unfold nstart. rewrite filter_app, app_length. reflexivity. Qed.

(* destruct every match scrutinee appearing in hypothesis H *)
Ltac break H :=
  repeat match type of H with
         | context [match ?x with _ => _ end] =>
             lazymatch x with
             | context [match _ with _ => _ end] => fail
             | _ => let E := fresh "E" in destruct x eqn:E; try discriminate H
             end
         end.

Definition Inv1 (s : cfg) (tr : list event) : Prop :=
  forall k, (cells s k = NotStarted -> nstart k tr = 0) /\ nstart k tr <= 1.

Lemma updc_eq f k v : updc f k v k = v.
Proof. unfold updc. rewrite Nat.eqb_refl. reflexivity. Qed.
Lemma updc_neq f k v k' : k' <> k -> updc f k v k' = f k'.
Proof. unfold updc. intros. destruct (Nat.eqb_spec k' k); congruence. Qed.

Lemma step_inv1 s tr a s' ev : Inv1 s tr -> step fixed p s a = Some (s', ev) -> Inv1 s' (tr ++ ev).
Proof.
  intros I H k. specialize (I k). rewrite nstart_app.
  destruct a as [t|t j]; simpl in H.
  - unfold step_task, finish, set_phase in H. break H; inversion H; subst; clear H; simpl;
      unfold nstart; simpl; try (rewrite ?Nat.add_0_r; tauto).
    all: try (destruct (Nat.eqb_spec k k0) as [->|N];
              [rewrite updc_eq | rewrite (updc_neq _ _ _ _ N)]; rewrite ?Nat.add_0_r; intuition congruence).
  - unfold step_go, set_phase in H. break H; inversion H; subst; clear H; simpl;
      unfold nstart; simpl; try (rewrite ?Nat.add_0_r; tauto).
    match goal with E : cells s ?k0 = NotStarted |- _ =>
      destruct (Nat.eqb_spec k0 k) as [->|N];
      [rewrite updc_eq; destruct I as [I1 I2]; unfold nstart in *; rewrite (I1 E); simpl; split; [discriminate|lia]
      |rewrite updc_neq by congruence; simpl; rewrite Nat.add_0_r; exact I]
    end.
Qed.

Theorem C01_at_most_once : forall s tr, reach s tr -> forall k, nstart k tr <= 1.
Proof.
  assert (forall s tr, reach s tr -> Inv1 s tr).
  { induction 1.
    - intro k; unfold nstart; simpl; split; auto.
    - eapply step_inv1; eauto. }
  intros s tr R k. apply (H s tr R k).
Qed.
End P.
Print Assumptions C01_at_most_once.
