From Coq Require Import List Arith ZArith Lia Bool.
Import ListNotations.
Require Import Deps DepsProof.

Section P.
Variable fixed : bool.
Variable p : prog.

Ltac break H :=
  repeat match type of H with
         | context [match ?x with _ => _ end] =>
             lazymatch x with
             | context [match _ with _ => _ end] => fail
             | _ => let E := fresh "E" in destruct x eqn:E; try discriminate H
             end
         end.

Definition g_done (g : gst) : bool := match g with GHas _ | GFinished => true | _ => false end.
Definition is_done (c : cellst) : Prop := exists r, c = Done r.

Record Inv (s : cfg) (tr : list event) : Prop := {
  i_ns : forall k, cells s k = NotStarted -> tasks s (TBody k) = None;
  i_run : forall k, cells s k = Running -> exists tk, tasks s (TBody k) = Some tk /\ t_phase tk <> PFinished;
  i_fin : forall k r, cells s k = Done r -> exists tk, tasks s (TBody k) = Some tk /\ t_phase tk = PFinished;
  i_end : forall k r, cells s k = Done r -> In (BodyEnd k r) tr;
  i_rd : forall t tk r st, tasks s t = Some tk -> t_phase tk = PRound r st ->
           exists c, nth_error (calls_of p t) (t_pc tk) = Some c /\ nth_error (rounds c) r = Some (rd_members st)
                     /\ length (rd_gs st) <= length (rd_members st);
  i_gs : forall t tk r st j g k, tasks s t = Some tk -> t_phase tk = PRound r st ->
           nth_error (rd_gs st) j = Some g -> g_done g = true ->
           nth_error (rd_members st) j = Some k -> is_done (cells s k);
  i_prev : forall t tk r st c r' ms k, tasks s t = Some tk -> t_phase tk = PRound r st ->
           nth_error (calls_of p t) (t_pc tk) = Some c -> r' < r -> nth_error (rounds c) r' = Some ms -> In k ms ->
           is_done (cells s k);
}.

Lemma updt_eq f t v : updt f t v t = v.
Proof. unfold updt. destruct (tid_eqb_spec t t); congruence. Qed.
Lemma updt_neq f t v t' : t' <> t -> updt f t v t' = f t'.
Proof. unfold updt. intros. destruct (tid_eqb_spec t' t); congruence. Qed.

Lemma nth_set_nth_eq {A} (l : list A) n v : n < length l -> nth_error (set_nth l n v) n = Some v.
Proof. revert n; induction l; simpl; intros [|n] H; simpl; try lia; auto. apply IHl. lia. Qed.
Lemma nth_set_nth_neq {A} (l : list A) n m v : n <> m -> nth_error (set_nth l n v) m = nth_error l m.
Proof. revert n m; induction l; simpl; intros [|n] [|m] H; simpl; auto; try congruence. Qed.
Lemma set_nth_length {A} (l : list A) n v : length (set_nth l n v) = length l.
Proof. revert n; induction l; simpl; intros [|n]; simpl; auto. Qed.

Lemma inv_init : Inv (init p) [].
Proof.
  constructor; simpl; try discriminate; auto.
  - intros t tk r st H. destruct t; [destruct (roots p n) as [[? ?]|]|]; inversion H; subst; simpl; discriminate.
  - intros t tk r st j g k H. destruct t; [destruct (roots p n) as [[? ?]|]|]; inversion H; subst; simpl; discriminate.
  - intros t tk r st c r' ms k H. destruct t; [destruct (roots p n) as [[? ?]|]|]; inversion H; subst; simpl; discriminate.
Qed.

Definition RoundOK (s : cfg) (t : tid) (pc r : nat) (st : rd) : Prop :=
  (exists c, nth_error (calls_of p t) pc = Some c /\ nth_error (rounds c) r = Some (rd_members st)
             /\ length (rd_gs st) <= length (rd_members st)) /\
  (forall j g k, nth_error (rd_gs st) j = Some g -> g_done g = true ->
                 nth_error (rd_members st) j = Some k -> is_done (cells s k)) /\
  (forall c r' ms k, nth_error (calls_of p t) pc = Some c -> r' < r -> nth_error (rounds c) r' = Some ms -> In k ms ->
                 is_done (cells s k)).

Lemma inv_roundok s tr t tk r st : Inv s tr -> tasks s t = Some tk -> t_phase tk = PRound r st -> RoundOK s t (t_pc tk) r st.
Proof.
  intros I Ht Hp. split; [|split].
  - eapply i_rd; eauto.
  - intros; eapply i_gs; eauto.
  - intros; eapply i_prev; eauto.
Qed.

(* a body task that can still move has a Running cell *)
Lemma live_body_running s tr k tk : Inv s tr -> tasks s (TBody k) = Some tk -> t_phase tk <> PFinished -> cells s k = Running.
Proof.
  intros I Ht Hp. destruct (cells s k) eqn:E; auto.
  - rewrite (i_ns _ _ I k E) in Ht. discriminate.
  - destruct (i_fin _ _ I k r E) as [tk' [H1 H2]]. congruence.
Qed.

Lemma inv_set_phase s tr t tk pc ph ev :
  Inv s tr -> tasks s t = Some tk -> t_phase tk <> PFinished -> ph <> PFinished ->
  (forall r st, ph = PRound r st -> RoundOK s t pc r st) ->
  Inv (set_phase s t tk pc ph) (tr ++ ev).
Proof.
  intros I Ht Hlive Hph Hrd. unfold set_phase. constructor; simpl.
  - intros k E. destruct (tid_eqb_spec (TBody k) t) as [<-|N].
    + rewrite (i_ns _ _ I k E) in Ht. discriminate.
    + rewrite updt_neq by auto. eapply i_ns; eauto.
  - intros k E. destruct (tid_eqb_spec (TBody k) t) as [<-|N].
    + rewrite updt_eq. eexists; split; eauto.
    + rewrite updt_neq by auto. eapply i_run; eauto.
  - intros k r E. destruct (tid_eqb_spec (TBody k) t) as [<-|N].
    + destruct (i_fin _ _ I k r E) as [tk' [H1 H2]]. congruence.
    + rewrite updt_neq by auto. eapply i_fin; eauto.
  - intros k r E. apply in_or_app. left. eapply i_end; eauto.
  - intros t0 tk0 r st H1 H2. destruct (tid_eqb_spec t0 t) as [->|N].
    + rewrite updt_eq in H1. inversion H1; subst; simpl in *. destruct (Hrd r st H2) as [A _]. exact A.
    + rewrite updt_neq in H1 by auto. eapply i_rd; eauto.
  - intros t0 tk0 r st j g k H1 H2. destruct (tid_eqb_spec t0 t) as [->|N].
    + rewrite updt_eq in H1. inversion H1; subst; simpl in *. destruct (Hrd r st H2) as [_ [A _]]. apply A.
    + rewrite updt_neq in H1 by auto. eapply i_gs; eauto.
  - intros t0 tk0 r st c r' ms k H1 H2. destruct (tid_eqb_spec t0 t) as [->|N].
    + rewrite updt_eq in H1. inversion H1; subst; simpl in *. destruct (Hrd r st H2) as [_ [_ A]]. apply A.
    + rewrite updt_neq in H1 by auto. eapply i_prev; eauto.
Qed.

Lemma inv_finish s tr t tk o ev0 :
  Inv s tr -> tasks s t = Some tk -> t_phase tk <> PFinished ->
  Inv (fst (finish p s t tk o)) (tr ++ ev0 ++ snd (finish p s t tk o)).
Proof.
  intros I Ht Hlive. destruct t as [n|k0]; simpl.
  - constructor; simpl.
    + intros k E. rewrite updt_neq by discriminate. eapply i_ns; eauto.
    + intros k E. rewrite updt_neq by discriminate. eapply i_run; eauto.
    + intros k r E. rewrite updt_neq by discriminate. eapply i_fin; eauto.
    + intros k r E. apply in_or_app. left. eapply i_end; eauto.
    + intros t0 tk0 r st H1 H2. destruct (tid_eqb_spec t0 (TRoot n)) as [->|N].
      * rewrite updt_eq in H1. inversion H1; subst; simpl in *. discriminate.
      * rewrite updt_neq in H1 by auto. eapply i_rd; eauto.
    + intros t0 tk0 r st j g k H1 H2. destruct (tid_eqb_spec t0 (TRoot n)) as [->|N].
      * rewrite updt_eq in H1. inversion H1; subst; simpl in *. discriminate.
      * rewrite updt_neq in H1 by auto. eapply i_gs; eauto.
    + intros t0 tk0 r st c r' ms k H1 H2. destruct (tid_eqb_spec t0 (TRoot n)) as [->|N].
      * rewrite updt_eq in H1. inversion H1; subst; simpl in *. discriminate.
      * rewrite updt_neq in H1 by auto. eapply i_prev; eauto.
  - assert (Hrun : cells s k0 = Running) by (eapply live_body_running; eauto).
    assert (Hmono : forall k, is_done (cells s k) -> is_done (updc (cells s) k0 (Done o) k)).
    { intros k [r E]. unfold updc. destruct (Nat.eqb_spec k k0); [eexists; eauto|eexists; eauto]. }
    assert (Hneq : forall k, k <> k0 -> TBody k <> TBody k0) by (intros; congruence).
    constructor; simpl.
    + intros k E. unfold updc in E. destruct (Nat.eqb_spec k k0); [discriminate|].
      rewrite updt_neq by auto. eapply i_ns; eauto.
    + intros k E. unfold updc in E. destruct (Nat.eqb_spec k k0); [discriminate|].
      rewrite updt_neq by auto. eapply i_run; eauto.
    + intros k r E. unfold updc in E. destruct (Nat.eqb_spec k k0) as [->|N].
      * rewrite updt_eq. eexists; split; eauto.
      * rewrite updt_neq by auto. eapply i_fin; eauto.
    + intros k r E. unfold updc in E. destruct (Nat.eqb_spec k k0) as [->|N].
      * inversion E; subst. apply in_or_app. right. apply in_or_app. right. left. reflexivity.
      * apply in_or_app. left. eapply i_end; eauto.
    + intros t0 tk0 r st H1 H2. destruct (tid_eqb_spec t0 (TBody k0)) as [->|N].
      * rewrite updt_eq in H1. inversion H1; subst; simpl in *. discriminate.
      * rewrite updt_neq in H1 by auto. eapply i_rd; eauto.
    + intros t0 tk0 r st j g k H1 H2 H3 H4 H5. apply Hmono. destruct (tid_eqb_spec t0 (TBody k0)) as [->|N].
      * rewrite updt_eq in H1. inversion H1; subst; simpl in *. discriminate.
      * rewrite updt_neq in H1 by auto. eapply i_gs; eauto.
    + intros t0 tk0 r st c r' ms k H1 H2 H3 H4 H5 H6. apply Hmono. destruct (tid_eqb_spec t0 (TBody k0)) as [->|N].
      * rewrite updt_eq in H1. inversion H1; subst; simpl in *. discriminate.
      * rewrite updt_neq in H1 by auto. eapply i_prev; eauto.
Qed.

Lemma inv_spawn_body s tr k cx :
  Inv s tr -> cells s k = NotStarted ->
  Inv {| cells := updc (cells s) k Running;
         tasks := updt (tasks s) (TBody k) (Some {| t_pc := 0; t_phase := PIdle; t_ctx := cx |}) |} tr.
Proof.
  intros I Hk.
  assert (Hmono : forall k', is_done (cells s k') -> is_done (updc (cells s) k Running k')).
  { intros k' [r E]. unfold updc. destruct (Nat.eqb_spec k' k) as [Q|]; [subst; congruence|eexists; eauto]. }
  assert (Hnone : tasks s (TBody k) = None) by (eapply i_ns; eauto).
  constructor; simpl.
  - intros k' E. unfold updc in E. destruct (Nat.eqb_spec k' k); [discriminate|].
    rewrite updt_neq by congruence. eapply i_ns; eauto.
  - intros k' E. unfold updc in E. destruct (Nat.eqb_spec k' k) as [Q|N].
    + subst k'. rewrite updt_eq. eexists; split; eauto. simpl. discriminate.
    + rewrite updt_neq by congruence. eapply i_run; eauto.
  - intros k' r E. unfold updc in E. destruct (Nat.eqb_spec k' k); [discriminate|].
    rewrite updt_neq by congruence. eapply i_fin; eauto.
  - intros k' r E. unfold updc in E. destruct (Nat.eqb_spec k' k); [discriminate|]. eapply i_end; eauto.
  - intros t0 tk0 r st H1 H2. destruct (tid_eqb_spec t0 (TBody k)) as [->|N].
    + rewrite updt_eq in H1. inversion H1; subst; simpl in *. discriminate.
    + rewrite updt_neq in H1 by auto. eapply i_rd; eauto.
  - intros t0 tk0 r st j g k' H1 H2 H3 H4 H5. apply Hmono. destruct (tid_eqb_spec t0 (TBody k)) as [->|N].
    + rewrite updt_eq in H1. inversion H1; subst; simpl in *. discriminate.
    + rewrite updt_neq in H1 by auto. eapply i_gs; eauto.
  - intros t0 tk0 r st c r' ms k' H1 H2 H3 H4 H5 H6. apply Hmono. destruct (tid_eqb_spec t0 (TBody k)) as [->|N].
    + rewrite updt_eq in H1. inversion H1; subst; simpl in *. discriminate.
    + rewrite updt_neq in H1 by auto. eapply i_prev; eauto.
Qed.

Lemma inv_weaken s tr ev : Inv s tr -> Inv s (tr ++ ev).
Proof.
  intros I. constructor; try (destruct I; assumption).
  intros k r E. apply in_or_app. left. eapply i_end; eauto.
Qed.

Lemma roundok_set s t pc r st j g' errs nerr ex k :
  RoundOK s t pc r st -> nth_error (rd_members st) j = Some k -> (g_done g' = true -> is_done (cells s k)) ->
  RoundOK s t pc r {| rd_members := rd_members st; rd_gs := set_nth (rd_gs st) j g';
                      rd_errs := errs; rd_nerr := nerr; rd_exit := ex |}.
Proof.
  intros [[c [A1 [A2 A3]]] [B C]] Hk Hg. split; [|split]; simpl.
  - exists c. rewrite set_nth_length. auto.
  - intros j0 g k0 H1 H2 H3. destruct (Nat.eq_dec j j0) as [->|N].
    + assert (k0 = k) by congruence. subst k0.
      destruct (Nat.lt_ge_cases j0 (length (rd_gs st))) as [L|L].
      * rewrite nth_set_nth_eq in H1 by auto. inversion H1; subst. auto.
      * assert (L' : length (set_nth (rd_gs st) j0 g') <= j0) by (rewrite set_nth_length; lia).
        apply nth_error_None in L'. congruence.
    + rewrite nth_set_nth_neq in H1 by auto. eapply B; eauto.
  - exact C.
Qed.

Lemma all_finished_nth gs j : all_finished gs = true -> j < length gs -> nth_error gs j = Some GFinished.
Proof.
  unfold all_finished. revert j. induction gs as [|g gs IH]; simpl; intros j H L; [lia|].
  apply andb_true_iff in H. destruct H as [H1 H2]. destruct j; simpl.
  - destruct g; try discriminate. reflexivity.
  - apply IH; auto. lia.
Qed.

Lemma step_inv s tr a s' ev : Inv s tr -> step fixed p s a = Some (s', ev) -> Inv s' (tr ++ ev).
Proof.
  intros I H. destruct a as [t|t j]; simpl in H.
  - unfold step_task in H.
    destruct (tasks s t) as [tk|] eqn:Ht; [|discriminate].
    destruct (t_phase tk) as [|r st|] eqn:Hp; [| |discriminate].
    + (* PIdle *)
      assert (Hlive : t_phase tk <> PFinished) by congruence.
      destruct (nth_error (calls_of p t) (t_pc tk)) as [c|] eqn:Hc.
      * destruct (rounds c) as [|ms rest] eqn:Hr; inversion H; subst; clear H.
        -- apply inv_set_phase; auto; discriminate.
        -- apply inv_set_phase; auto; try discriminate.
           intros r st Q. inversion Q; subst. split; [|split]; simpl.
           ++ exists c. rewrite Hr. simpl. repeat split; auto. lia.
           ++ intros j g k Hj. destruct j; discriminate.
           ++ intros; lia.
      * inversion H; subst; clear H.
        match goal with |- Inv (fst ?f) _ => idtac | |- Inv ?x (tr ++ ?e) =>
          change x with (fst (x, e)); change e with (snd (x, e)) at 2 end.
        pose proof (inv_finish s tr t tk (match t with TBody k => res_of (b_result (bodies p k)) | TRoot _ => RNil end) [] I Ht Hlive) as F.
        simpl in F. destruct (finish p s t tk _) as [s1 e1] eqn:Ef. simpl in *. inversion H1; subst. exact F.
    + (* PRound *)
      assert (Hlive : t_phase tk <> PFinished) by congruence.
      pose proof (inv_roundok s tr t tk r st I Ht Hp) as RO.
      destruct RO as [[c [A1 [A2 A3]]] [B C]].
      rewrite A1 in H.
      destruct (Nat.ltb_spec (length (rd_gs st)) (length (rd_members st))) as [L|L].
      * inversion H; subst; clear H. apply inv_set_phase; auto; try discriminate.
        intros r0 st0 Q. inversion Q; subst. split; [|split]; simpl.
        -- exists c. rewrite app_length. simpl. repeat split; auto. lia.
        -- intros j g k H1 H2 H3. destruct (Nat.lt_ge_cases j (length (rd_gs st))) as [L1|L1].
           ++ rewrite nth_error_app1 in H1 by auto. eapply B; eauto.
           ++ rewrite nth_error_app2 in H1 by auto. destruct (j - length (rd_gs st)); simpl in H1.
              ** inversion H1; subst. discriminate.
              ** destruct n; discriminate.
        -- exact C.
      * destruct (all_finished (rd_gs st)) eqn:AF; [|discriminate].
        assert (Hall : forall k, In k (rd_members st) -> is_done (cells s k)).
        { intros k Hin. apply In_nth_error in Hin. destruct Hin as [j Hj].
          assert (j < length (rd_members st)) by (apply nth_error_Some; congruence).
          eapply B; eauto. apply all_finished_nth; auto. lia. reflexivity. }
        destruct (Nat.eqb (rd_nerr st) 0).
        -- destruct (nth_error (rounds c) (S r)) as [ms|] eqn:Hn; inversion H; subst; clear H.
           ++ apply inv_set_phase; auto; try discriminate.
              intros r0 st0 Q. inversion Q; subst. split; [|split]; simpl.
              ** exists c. repeat split; auto. lia.
              ** intros j g k Hj. destruct j; discriminate.
              ** intros c0 r' ms0 k Hc0 Hlt Hms Hin. assert (c0 = c) by congruence. subst c0.
                 destruct (Nat.eq_dec r' r) as [->|N].
                 --- rewrite A2 in Hms. inversion Hms; subst. auto.
                 --- eapply C; eauto. lia.
           ++ apply inv_set_phase; auto; discriminate.
        -- destruct (c_guarded c).
           ++ inversion H; subst; clear H. apply inv_set_phase; auto; discriminate.
           ++ destruct (finish p s t tk (RPanic (rd_exit st) (rd_errs st))) as [s1 e1] eqn:Ef.
              inversion H; subst; clear H.
              pose proof (inv_finish s tr t tk (RPanic (rd_exit st) (rd_errs st))
                            [CallPanic t (t_pc tk) (rd_exit st) (rd_errs st)] I Ht Hlive) as F.
              rewrite Ef in F. simpl in F. exact F.
  - unfold step_go in H.
    destruct (tasks s t) as [tk|] eqn:Ht; [|discriminate].
    destruct (t_phase tk) as [|r st|] eqn:Hp; try discriminate.
    assert (Hlive : t_phase tk <> PFinished) by congruence.
    pose proof (inv_roundok s tr t tk r st I Ht Hp) as RO.
    destruct (nth_error (calls_of p t) (t_pc tk)) as [c|] eqn:Hc; [|discriminate].
    destruct (nth_error (rd_members st) j) as [k|] eqn:Hk; [|discriminate].
    destruct (nth_error (rd_gs st) j) as [g|] eqn:Hg; [|discriminate].
    assert (Hold : g_done g = true -> is_done (cells s k)).
    { destruct RO as [_ [B _]]. intros. eapply B; eauto. }
    destruct g.
    + destruct (cells s k) eqn:Ek; [|discriminate|].
      * inversion H; subst; clear H.
        apply inv_weaken.
        refine (inv_spawn_body (set_phase s t tk (t_pc tk) (PRound r
                   {| rd_members := rd_members st; rd_gs := set_nth (rd_gs st) j GRunning;
                      rd_errs := rd_errs st; rd_nerr := rd_nerr st; rd_exit := rd_exit st |})) tr k _ _ Ek).
        rewrite <- (app_nil_r tr). apply inv_set_phase; auto; try discriminate.
        intros r0 st0 Q. inversion Q; subst. eapply roundok_set; eauto. discriminate.
      * inversion H; subst; clear H. apply inv_set_phase; auto; try discriminate.
        intros r1 st0 Q. inversion Q; subst. eapply roundok_set; eauto. intros _. rewrite Ek. eexists; eauto.
    + destruct (cells s k) eqn:Ek; try discriminate.
      inversion H; subst; clear H. apply inv_set_phase; auto; try discriminate.
      intros r1 st0 Q. inversion Q; subst. eapply roundok_set; eauto. intros _. rewrite Ek. eexists; eauto.
    + destruct (is_nil r0); inversion H; subst; clear H; apply inv_set_phase; auto; try discriminate;
        intros r1 st0 Q; inversion Q; subst; eapply roundok_set; eauto.
    + discriminate.
Qed.

Theorem reach_inv s tr : reach fixed p s tr -> Inv s tr.
Proof. induction 1; [apply inv_init | eapply step_inv; eauto]. Qed.
End P.
