From Coq Require Import List Arith ZArith Lia Bool.
Import ListNotations.
Require Import Deps DepsProof DepsProof2.

Section P.
Variable fixed : bool.
Variable p : prog.

Lemma rounds_cover c k : In k (c_deps c) -> exists r ms, nth_error (rounds c) r = Some ms /\ In k ms.
Proof.
  unfold rounds. destruct (c_style c); intros H.
  - exists 0, (c_deps c). simpl. auto.
  - apply In_nth_error in H. destruct H as [n Hn]. exists n, [k]. split; [|simpl; auto].
    rewrite nth_error_map, Hn. reflexivity.
Qed.

(* what is true of the pre-state when a step emits CallReturn *)
Lemma emit_return s tr a s' ev t pc :
  Inv p s tr -> step fixed p s a = Some (s', ev) -> In (CallReturn t pc) ev ->
  forall c k, nth_error (calls_of p t) pc = Some c -> In k (c_deps c) -> is_done (cells s k).
Proof.
  intros I H Hin c k Hc Hk. destruct a as [t0|t0 j]; simpl in H.
  - unfold step_task in H.
    destruct (tasks s t0) as [tk|] eqn:Ht; [|discriminate].
    destruct (t_phase tk) as [|r st|] eqn:Hp; [| |discriminate].
    + destruct (nth_error (calls_of p t0) (t_pc tk)) as [c0|] eqn:Hc0.
      * destruct (rounds c0) as [|ms rest] eqn:Hr; inversion H; subst; clear H.
        -- simpl in Hin. destruct Hin as [Q|[Q|[]]]; [discriminate|]. inversion Q; subst.
           assert (c0 = c) by congruence. subst c0.
           destruct (rounds_cover c k Hk) as [r [ms [A B]]]. rewrite Hr in A. destruct r; discriminate.
        -- simpl in Hin. destruct Hin as [Q|[]]; discriminate.
      * unfold finish in H. destruct t0; inversion H; subst; clear H; simpl in Hin; [destruct Hin | destruct Hin as [Q|[]]; discriminate].
    + pose proof (inv_roundok p s tr t0 tk r st I Ht Hp) as [[c0 [A1 [A2 A3]]] [B C]].
      rewrite A1 in H.
      destruct (Nat.ltb_spec (length (rd_gs st)) (length (rd_members st))) as [L|L].
      * inversion H; subst. destruct Hin.
      * destruct (all_finished (rd_gs st)) eqn:AF; [|discriminate].
        assert (Hall : forall k, In k (rd_members st) -> is_done (cells s k)).
        { intros k0 Hin0. apply In_nth_error in Hin0. destruct Hin0 as [j Hj].
          assert (j < length (rd_members st)) by (apply nth_error_Some; congruence).
          eapply B; eauto. apply all_finished_nth; auto. lia. reflexivity. }
        destruct (Nat.eqb (rd_nerr st) 0).
        -- destruct (nth_error (rounds c0) (S r)) as [ms|] eqn:Hn; inversion H; subst; clear H.
           ++ destruct Hin.
           ++ simpl in Hin. destruct Hin as [Q|[]]. inversion Q; subst.
              assert (c0 = c) by congruence. subst c0.
              destruct (rounds_cover c k Hk) as [r' [ms [A B']]].
              assert (r' <= r). { apply nth_error_None in Hn. assert (r' < length (rounds c)) by (apply nth_error_Some; congruence). lia. }
              destruct (Nat.eq_dec r' r) as [->|N].
              ** rewrite A2 in A. inversion A; subst. auto.
              ** eapply C; eauto. lia.
        -- destruct (c_guarded c0).
           ++ inversion H; subst. simpl in Hin. destruct Hin as [Q|[]]; discriminate.
           ++ destruct (finish p s t0 tk _) as [s1 e1] eqn:Ef. inversion H; subst; clear H.
              unfold finish in Ef. destruct t0; inversion Ef; subst; simpl in Hin; intuition discriminate.
  - unfold step_go in H.
    destruct (tasks s t0) as [tk|]; [|discriminate].
    destruct (t_phase tk) as [|r st|]; try discriminate.
    destruct (nth_error (calls_of p t0) (t_pc tk)); [|discriminate].
    destruct (nth_error (rd_members st) j); [|discriminate].
    destruct (nth_error (rd_gs st) j) as [g|]; [|discriminate].
    destruct g; try discriminate.
    + destruct (cells s k0); try discriminate; inversion H; subst; simpl in Hin; intuition discriminate.
    + destruct (cells s k0); try discriminate; inversion H; subst; simpl in Hin; intuition discriminate.
    + destruct (is_nil r0); inversion H; subst; simpl in Hin; intuition discriminate.
Qed.

(* C02 for normal returns: every dependency named by the call has ended strictly before the return *)
Theorem C02_barrier_return : forall s tr, reach fixed p s tr ->
  forall pre t pc post, tr = pre ++ CallReturn t pc :: post ->
  forall c k, nth_error (calls_of p t) pc = Some c -> In k (c_deps c) -> exists r, In (BodyEnd k r) pre.
Proof.
  induction 1 as [|s tr a s' ev R IH Hstep].
  - intros pre t pc post E. destruct pre; discriminate.
  - intros pre t pc post E c k Hc Hk.
    apply app_eq_app in E. destruct E as [l [[E1 E2]|[E1 E2]]].
    + destruct l as [|x l].
      * (* boundary: tr = pre, ev starts with the event *)
        simpl in E2. rewrite app_nil_r in E1. subst pre.
        assert (Hin : In (CallReturn t pc) ev) by (rewrite <- E2; left; reflexivity).
        destruct (emit_return s tr a s' ev t pc (reach_inv fixed p s tr R) Hstep Hin c k Hc Hk) as [r Er].
        exists r. eapply i_end; [apply (reach_inv fixed p s tr R)|exact Er].
      * (* the event was already in tr *)
        simpl in E2. inversion E2; subst. eapply IH; eauto.
    + (* pre = tr ++ l, ev = l ++ event :: post *)
      subst pre.
      assert (Hin : In (CallReturn t pc) ev) by (rewrite E2; apply in_or_app; right; left; reflexivity).
      destruct (emit_return s tr a s' ev t pc (reach_inv fixed p s tr R) Hstep Hin c k Hc Hk) as [r Er].
      exists r. apply in_or_app. left. eapply i_end; [apply (reach_inv fixed p s tr R)|exact Er].
Qed.
End P.
Print Assumptions C02_barrier_return.
