From Coq Require Import List Arith ZArith Lia Bool.
Import ListNotations.
Require Import Deps.

(* node 0 = bad (returns error code 1), node 1 = mid { Deps(bad) }, root 0: Deps(mid) guarded; Deps(mid) guarded *)
Definition mkcall d := {| c_style := Par; c_ctx := Bg; c_deps := d; c_guarded := true |}.
Definition P : prog :=
  {| bodies := fun k => match k with
                        | 0 => {| b_calls := []; b_result := Err 1 [7] |}
                        | _ => {| b_calls := [{| c_style := Par; c_ctx := Bg; c_deps := [0]; c_guarded := false |}]; b_result := Ok |}
                        end;
     roots := fun n => match n with 0 => Some ([mkcall [1]; mkcall [1]], CRoot) | _ => None end |}.

Definition sched : list action :=
  [ATask (TRoot 0); ATask (TRoot 0); AGo (TRoot 0) 0;           (* enter call 0, spawn, start mid *)
   ATask (TBody 1); ATask (TBody 1); AGo (TBody 1) 0;           (* mid enters Deps(bad), spawn, start bad *)
   ATask (TBody 0);                                             (* bad finishes *)
   AGo (TBody 1) 0; AGo (TBody 1) 0; ATask (TBody 1);           (* winner sees result, reports; mid's wait ends -> panics *)
   AGo (TRoot 0) 0; AGo (TRoot 0) 0; ATask (TRoot 0);           (* root call 0 panics (guarded) *)
   ATask (TRoot 0); ATask (TRoot 0); AGo (TRoot 0) 0; AGo (TRoot 0) 0; ATask (TRoot 0)].  (* second call *)

Eval vm_compute in option_map snd (run false P (init P) sched).
Eval vm_compute in option_map snd (run true P (init P) sched).
