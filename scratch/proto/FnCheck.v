From Coq Require Import List Arith ZArith Lia Bool.
Import ListNotations.

Inductive gty := TInt | TBool | TString | TDur | TCtx | TErr | TNs | TSlice (e : gty) | TOther (n : nat).

Fixpoint gty_eqb (a b : gty) : bool :=
  match a, b with
  | TInt, TInt | TBool, TBool | TString, TString | TDur, TDur | TCtx, TCtx | TErr, TErr | TNs, TNs => true
  | TSlice x, TSlice y => gty_eqb x y
  | TOther n, TOther m => Nat.eqb n m
  | _, _ => false
  end.
Lemma gty_eqb_spec a b : reflect (a = b) (gty_eqb a b).
Proof.
  revert b; induction a; destruct b; simpl; try (constructor; congruence).
  - destruct (IHa b); constructor; congruence.
  - destruct (Nat.eqb_spec n n0); constructor; congruence.
Qed.

Definition supported (t : gty) : bool :=
  match t with TInt | TBool | TString | TDur => true | _ => false end.

Record sig := { ins : list gty; variadic : bool; outs : list gty }.

Definition argty := option gty.   (* None: untyped nil *)

Definition elem (t : gty) : gty := match t with TSlice e => e | _ => t end.

(* the argument loop of checkF, lines 154-170, with its saturating index x *)
Fixpoint loop (s : sig) (x : nat) (args : list argty) : bool :=
  match args with
  | [] => true
  | a :: rest =>
      let argT0 := nth x (ins s) (TOther 0) in
      let argT := if variadic s && Nat.eqb x (length (ins s) - 1) then elem argT0 else argT0 in
      if negb (supported argT) then false
      else match a with
           | Some pt => if gty_eqb argT pt then loop s (if Nat.ltb x (length (ins s) - 1) then S x else x) rest else false
           | None => false
           end
  end.

Inductive result := Bad | Good (hasCtx isNs : bool).

Definition checkF (s : sig) (args : list argty) : result :=
  let nin := length (ins s) in
  if Nat.ltb 1 (length (outs s)) then Bad
  else if Nat.eqb (length (outs s)) 1 && negb (gty_eqb (nth 0 (outs s) TInt) TErr) then Bad
  else if Nat.ltb nin (length args) && negb (variadic s) then Bad
  else if Nat.eqb nin 0 then Good false false
  else
    let isNs := gty_eqb (nth 0 (ins s) (TOther 0)) TNs in
    let x := if isNs then 1 else 0 in
    let inputs := (Z.of_nat nin - (if isNs then 1 else 0))%Z in
    let hasCtx := Nat.ltb x nin && gty_eqb (nth x (ins s) (TOther 0)) TCtx in
    let inputs := (inputs - (if hasCtx then 1 else 0))%Z in
    let x := if hasCtx then S x else x in
    if (if variadic s then Z.ltb (Z.of_nat (length args)) (inputs - 1)
        else negb (Z.eqb (Z.of_nat (length args)) inputs)) then Bad
    else if loop s x args then Good hasCtx isNs else Bad.

(* ---- the declarative reading ---- *)
Definition strip_ns (l : list gty) : list gty * bool :=
  match l with TNs :: r => (r, true) | _ => (l, false) end.
Definition strip_ctx (l : list gty) : list gty * bool :=
  match l with TCtx :: r => (r, true) | _ => (l, false) end.

Definition outs_ok (o : list gty) : bool :=
  match o with [] => true | [TErr] => true | _ => false end.

Fixpoint match_fixed (ps : list gty) (args : list argty) : bool :=
  match ps, args with
  | [], [] => true
  | p :: ps', Some a :: args' => supported p && gty_eqb p a && match_fixed ps' args'
  | _, _ => false
  end.

Definition match_tail (e : gty) (args : list argty) : bool :=
  forallb (fun a => match a with Some t => supported e && gty_eqb e t | None => false end) args.

(* parameters after receiver/context; Go well-formedness: variadic -> last parameter is a slice *)
Definition well_typed (s : sig) (args : list argty) : bool :=
  outs_ok (outs s) &&
  let '(r1, _) := strip_ns (ins s) in
  let '(r2, _) := strip_ctx r1 in
  if variadic s then
    match rev r2 with
    | TSlice e :: fixed_rev =>
        let fixed := rev fixed_rev in
        Nat.leb (length fixed) (length args) &&
        match_fixed fixed (firstn (length fixed) args) &&
        match_tail e (skipn (length fixed) args)
    | _ => false
    end
  else match_fixed r2 args.

Definition go_wf (s : sig) : Prop :=
  variadic s = true -> exists pre e, ins s = pre ++ [TSlice e].
