From Coq Require Import List Arith ZArith Bool. Import ListNotations.
Require Import FnCheck.
(* exhaustive agreement on small signatures: a finite sweep to test the statement before proving it *)
Definition tys := [TInt; TString; TCtx; TNs; TOther 0; TErr].
Fixpoint lists {A} (xs : list A) (n : nat) : list (list A) :=
  match n with O => [[]] | S m => [] :: flat_map (fun l => map (fun x => x :: l) xs) (lists xs m) end.
Definition sigs : list sig :=
  flat_map (fun i => flat_map (fun o =>
     {| ins := i; variadic := false; outs := o |} ::
     map (fun e => {| ins := i ++ [TSlice e]; variadic := true; outs := o |}) [TInt; TString; TOther 0; TCtx])
     [[]; [TErr]; [TInt]; [TErr; TErr]]) (lists tys 3).
Definition argls : list (list argty) := lists [Some TInt; Some TString; Some (TOther 0); None; Some TCtx] 4.
Definition is_good r := match r with Good _ _ => true | Bad => false end.
Definition bad := filter (fun sa => negb (Bool.eqb (is_good (checkF (fst sa) (snd sa))) (well_typed (fst sa) (snd sa))))
   (flat_map (fun s => map (fun a => (s, a)) argls) sigs).
Eval vm_compute in (length sigs, length argls, length bad, firstn 6 bad).
