#!/bin/sh
# MANIFEST.setup_cmd: build the Coq development (full .vo build) and warm the Go build cache. Offline.
set -e
cd "$(dirname "$0")"
python3 - <<'PY'
import sys
sys.path.insert(0, 'lib')
import vlib
ok, log = vlib.coq_make(clean=False)
print(log[-3000:])
sys.exit(0 if ok else 1)
PY
export GOFLAGS=-mod=mod GOPROXY=off GOSUMDB=off GOTOOLCHAIN=local
(cd /repo && go build -tags verif ./... ) || true
