#!/usr/bin/env python3
"""tools/audit.py: source audit of the Coq development (what a stranger would grep for).

Fails (exit 1, one line per hit) on: Admitted / admit / Axiom / Parameter / Conjecture / Admit Obligations,
Variable(s) / Hypothesis(-es) / Context outside a Section, switches that weaken the kernel
(Unset Guard Checking, bypass_check, -type-in-type, -impredicative-set, native_compute), and on
-vos/-vok in the build files.  Comments are stripped first (nested).  Used by lib/vlib.py (Ctx.prove)."""
import os, re, sys

HERE = os.path.dirname(os.path.dirname(os.path.abspath(__file__)))
COQ = os.path.join(HERE, "coq")

def strip_comments(s):
    out, depth, i, instr = [], 0, 0, False
    while i < len(s):
        if depth == 0 and s[i] == '"':
            instr = not instr; out.append(s[i]); i += 1; continue
        if not instr and s.startswith("(*", i):
            depth += 1; i += 2; continue
        if not instr and depth and s.startswith("*)", i):
            depth -= 1; i += 2; continue
        if depth == 0:
            out.append(s[i])
        elif s[i] == "\n":
            out.append("\n")
        i += 1
    return "".join(out)

FORBID = [r"\bAdmitted\b", r"\badmit\b", r"\bAxiom\b", r"\bAxioms\b", r"\bParameter\b", r"\bParameters\b", r"\bConjecture\b",
          r"Admit\s+Obligations", r"Unset\s+Guard", r"bypass_check", r"type-in-type", r"impredicative-set",
          r"native_compute", r"Unset\s+Universe\s+Checking", r"Unset\s+Positivity"]

def audit():
    hits, nvars, nfiles = [], 0, 0
    for root, _, files in os.walk(COQ):
        for fn in sorted(files):
            if not fn.endswith(".v"):
                continue
            nfiles += 1
            path = os.path.join(root, fn)
            text = strip_comments(open(path).read())
            depth = 0
            for ln, line in enumerate(text.splitlines(), 1):
                for pat in FORBID:
                    if re.search(pat, line):
                        hits.append("%s:%d: %s" % (os.path.relpath(path, HERE), ln, line.strip()[:100]))
                if re.match(r"\s*Section\s+\w+", line):
                    depth += 1
                elif re.match(r"\s*End\s+\w+", line) and depth > 0:
                    depth -= 1      # (Module ... End pairs are not used in this development with variables inside)
                if re.match(r"\s*(Variables?|Hypothes[ie]s|Context)\b", line):
                    nvars += 1
                    if depth == 0:
                        hits.append("%s:%d: outside a Section: %s" % (os.path.relpath(path, HERE), ln, line.strip()[:100]))
    for bf in ("_CoqProject", "Makefile.coq.conf"):
        p = os.path.join(COQ, bf)
        if os.path.exists(p) and re.search(r"-vos|-vok|type-in-type|impredicative-set", open(p).read()):
            hits.append("coq/%s: weakening build option" % bf)
    return hits, nvars, nfiles

if __name__ == "__main__":
    hits, nvars, nfiles = audit()
    for h in hits:
        print(h)
    print("audit: %d files, %d section variables/hypotheses, %d problems" % (nfiles, nvars, len(hits)))
    sys.exit(1 if hits else 0)
