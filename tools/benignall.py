#!/usr/bin/env python3
"""tools/benignall.py: run every harmless change (benign/<id>/patch.diff: behaviour-preserving refactorings
produced independently) against the checks of the properties anchored in the files it touches; a
VIOLATION here is a false alarm.  Writes benign/RESULTS.md."""
import os, sys, subprocess, re, json
from concurrent.futures import ThreadPoolExecutor
HERE = os.path.dirname(os.path.dirname(os.path.abspath(__file__)))
MAP = {"mg/deps.go": ["C01", "C02", "C03", "C13", "C12", "C05"], "mg/fn.go": ["C14", "C01", "C12"], "mg/errors.go": ["C03", "C05", "C15"],
       "mg/runtime.go": ["C11", "C08", "C09", "C15"], "sh/cmd.go": ["C15", "C16", "C05"], "sh/helpers.go": ["C15", "C16"],
       "target/newer.go": ["C17"], "target/target.go": ["C17"], "parse/parse.go": ["C04", "C06", "C07", "C18", "C19"],
       "mage/template.go": ["C04", "C05", "C06", "C07", "C08", "C11", "C12", "C18", "C19"],
       "internal/run.go": ["C10", "C11", "C19", "C08", "C09"],
       "mage/main.go": ["C04", "C05", "C06", "C08", "C09", "C10", "C11", "C12", "C18", "C19", "C20"]}
ids = sys.argv[1:] or sorted(d for d in os.listdir(os.path.join(HERE, "benign")) if os.path.isdir(os.path.join(HERE, "benign", d)))
def one(i):
    d = os.path.join(HERE, "benign", i)
    files = re.findall(r"^\+\+\+ b/(\S+)", open(os.path.join(d, "patch.diff")).read(), re.M)
    pids = sorted({p for f in files for p in MAP.get(f, [])})
    p = subprocess.run([os.path.join(HERE, "tools", "seedtest.py"), os.path.join(d, "patch.diff")] + pids, stdout=subprocess.PIPE, stderr=subprocess.STDOUT, text=True)
    return i, files, p.stdout.strip().splitlines()
rows = []
with ThreadPoolExecutor(max_workers=3) as ex:
    for i, files, lines in ex.map(one, ids):
        for l in lines:
            m = re.match(r"(C\d+) seed=\S+ (CAUGHT|missed|ERROR[^(]*) \((\d+)s\) violations=(\d+) concrete=(\d+)", l)
            if m:
                res = "quiet" if m.group(2) == "missed" else ("FALSE ALARM (%s violations, %s with an input)" % (m.group(4), m.group(5)) if m.group(2) == "CAUGHT" else m.group(2))
                rows.append((i, ",".join(files), m.group(1), res))
                print(i, m.group(1), res); sys.stdout.flush()
old = []
if sys.argv[1:] and os.path.exists(os.path.join(HERE, "benign", "RESULTS.md")):
    for l in open(os.path.join(HERE, "benign", "RESULTS.md")).read().splitlines()[2:]:
        c = [x.strip() for x in l.strip("|").split("|")]
        if len(c) == 4 and c[0] not in ids:
            old.append(tuple(c))
rows = sorted(old + rows)
with open(os.path.join(HERE, "benign", "RESULTS.md"), "w") as f:
    f.write("| harmless change | files | check | result |\n|---|---|---|---|\n")
    for r in rows:
        f.write("| %s | %s | %s | %s |\n" % r)
