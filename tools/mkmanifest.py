#!/usr/bin/env python3
"""Regenerates MANIFEST.json from tools/claims.json (one entry per claimed property)."""
import json, os
HERE = os.path.dirname(os.path.dirname(os.path.abspath(__file__)))
props = [json.loads(l) for l in open(os.path.join(HERE, "properties.jsonl"))]
claims = json.load(open(os.path.join(HERE, "tools", "claims.json")))
checks, na = [], []
for p in props:
    pid = p["id"]
    c = claims.get(pid)
    if not c or c.get("not_applicable"):
        na.append({"property_id": pid, "reason": (c or {}).get("reason", "check not built yet (work in progress; planned, see DESIGN.md section 4)")})
        continue
    checks.append({
        "property_id": pid,
        "quick_cmd": "./check %s --tier quick" % pid,
        "thorough_cmd": "./check %s --tier thorough" % pid,
        "evidence_file": "/verif/evidence/%s.json" % pid,
        "replay_cmd_template": "./check %s --replay {path}" % pid,
        "engine": "coq",
        "level_claimed": {"category": "proof", "text": c["text"], "design_ref": c.get("design_ref", "DESIGN.md section 4, " + pid)},
        "level_note": c["note"],
        "technique": c["technique"],
    })
m = {"version": 1, "setup_cmd": "./setup.sh",
     "hooks": {"guard": "verif", "enable": "go build -tags verif (the tag is reserved; no hook file is needed so far: every observation goes through public APIs and harness-owned code)",
               "baseline_off_cmd": "cd /repo && go test -vet=off -count=1 ./...", "source_commits": [], "add_only": True},
     "engines": [{"name": "coq", "path": "coq", "serves_properties": [c["property_id"] for c in checks],
                  "kind_free_text": "Coq 8.16.1 development: executable Gallina models (Model/), lemmas (Proof/), property theorems (Props/), evaluated on harness observations (Run/)"}],
     "checks": checks,
     "notes": "Every check: full .vo build of coq/, fresh coqc of coq/Props/<id>.v (Print Assumptions captured), Go harness rebuilt from /repo's working tree, model evaluated by coqc/vm_compute on the observed cases, independent oracle on every case. Also per run: a source audit of the Coq development (tools/audit.py: no Admitted/Axiom/Parameter, no Variable outside a Section, no kernel switch) and an allow-list on Print Assumptions; composition theorems linking the property models (coq/Props/Compose*.v, DESIGN.md 10.6) re-checked by the checks they are attached to; pure functions and literal tables of /repo re-translated to Gallina by harness/extract and re-proved equal to the models' (lib/extractlib.py, tools/notes/Translator.md). See DESIGN.md.",
     "not_applicable": na}
json.dump(m, open(os.path.join(HERE, "MANIFEST.json"), "w"), indent=1)
print("claimed:", [c["property_id"] for c in checks])
