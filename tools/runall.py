#!/usr/bin/env python3
"""tools/runall.py [--seed N] [--jobs J] [ids...]: run the quick tier of every claimed check (or the named ones), J at a time; one line per check."""
import json, os, subprocess, sys, time
from concurrent.futures import ThreadPoolExecutor
HERE = os.path.dirname(os.path.dirname(os.path.abspath(__file__)))
args = sys.argv[1:]
seed = None; jobs = 3; ids = []
i = 0
while i < len(args):
    if args[i] == "--seed": seed = args[i + 1]; i += 2
    elif args[i] == "--jobs": jobs = int(args[i + 1]); i += 2
    else: ids.append(args[i]); i += 1
ids = ids or [c["property_id"] for c in json.load(open(os.path.join(HERE, "MANIFEST.json")))["checks"]]
def one(pid):
    env = dict(os.environ)
    if seed: env["VERIF_SEED"] = seed
    t = time.time()
    p = subprocess.run(["./check", pid, "--tier", "quick"], cwd=HERE, env=env, stdout=subprocess.PIPE, stderr=subprocess.PIPE, text=True)
    lines = [l for l in p.stdout.splitlines() if l.startswith(("VIOLATION", "OK "))]
    kf = sum(1 for l in p.stdout.splitlines() if l.startswith("KNOWN-FINDING"))
    return "%s rc=%d %.0fs known=%d %s" % (pid, p.returncode, time.time() - t, kf, " | ".join(lines)[:300])
with ThreadPoolExecutor(max_workers=jobs) as ex:
    for l in ex.map(one, ids):
        print(l); sys.stdout.flush()
