import json,sys
pid=sys.argv[1]; R=sys.argv[2] if len(sys.argv)>2 else '4'
import glob,os
avoid=[]
for d in sorted(glob.glob('/verif/seeded/%s-*'%pid)):
    try:
        m=json.load(open(os.path.join(d,'meta.json'))); avoid.append('- '+str(m.get('summary',''))[:400].replace('\n',' '))
    except Exception: pass
avoid_txt='\n'.join(avoid)
p=[json.loads(l) for l in open('/verif/properties.jsonl') if json.loads(l)['id']==pid][0]
print(f"""You are given a scratch git worktree of the Go project magefile/mage at /tmp/seed{R}_{pid} (detached HEAD, clean). Work ONLY inside that directory and /tmp/seedout{R}_{pid}; do not read or write /verif or /repo. The Go toolchain is offline: in every shell call first run `export GOFLAGS=-mod=mod GOPROXY=off GOSUMDB=off GOTOOLCHAIN=local`. The full test suite is `cd /tmp/seed{R}_{pid} && go test -vet=off -count=1 ./...` (1-3 minutes; the machine is shared and may be slow - use generous timeouts).

Here is a semantic property of mage that is supposed to hold:

TITLE: {p['title']}
STATEMENT: {p['statement']}
QUANTIFIER: {p['quantifier']['text']}
WHY THE EXISTING TESTS CANNOT SETTLE IT: {p['why_tests_cant']} (Note: defects this text describes as present "on the pinned tree" have since been repaired in this checkout; see `git log --oneline | head -25`.)
CODE IT IS ANCHORED IN: {', '.join(p['anchors']['files'])}

Your task (this is for evaluating a verification tool, so be adversarial but realistic): produce a CHANGE to mage's non-test source that BREAKS this property while (1) still compiling, (2) still passing the existing, unedited test suite, and (3) looking like something a developer could plausibly write (this round: present it as a realistic CLEAN-UP / MODERNISATION / PERFORMANCE pull request - e.g. replacing a hand-rolled helper by a library call with slightly different semantics, caching or memoising something, hoisting work out of a loop, replacing a mutex by atomics or sync.Map, simplifying error handling, deduplicating two similar code paths, changing a data structure, reordering initialisation - where the behaviour change is a side effect hidden among behaviour-preserving edits; the glue code around the anchored functions (the generated-main template in mage/template.go, internal/, flag and environment handling, helpers) is fair game as long as the PROPERTY as stated is what breaks). The breakage should need something SPECIFIC to manifest — a particular interleaving, a failure at a particular point, a multi-step sequence of operations, an unusual input, or two cooperating sites — not something ordinary use would expose at once. Do not change any *_test.go file or testdata. Do NOT simply revert one of the recent "fix:" commits - invent something new. Earlier rounds already produced the following changes for this property; yours must be DIFFERENT in mechanism and in the clause or code path attacked (look for other clauses of the statement, other entry points, other files among the anchors, rarely used options, error paths, boundary values):
{avoid_txt}


Produce TWO different such changes if you can (variant A and variant B, attacking different clauses of the property or different mechanisms), each with a DEMONSTRATION: a small Go test or program or shell script placed OUTSIDE the mage packages' test suites (e.g. a directory /tmp/seedout{R}_{pid}/A/demo with its own go.mod containing `require github.com/magefile/mage v0.0.0` and `replace github.com/magefile/mage => <repo path>`; or a script that builds mage from the repo path and runs it on a scratch project created under a temp dir) that FAILS (exit status non-zero) with the change applied and PASSES (exit 0) without it. If the breakage is timing dependent, make the demonstration force the timing so it fails reliably with the change.

For each variant X in {{A,B}} deliver in /tmp/seedout{R}_{pid}/X/:
  patch.diff   - `git diff` of the change against HEAD (must apply with `git apply` to a clean checkout of the same commit)
  demo/        - the demonstration, with a run.sh that exits 0/non-zero and takes the repo path to test as $1 (so that it can be pointed at another checkout; generate any go.mod replace line from $1; set the offline Go env vars inside run.sh; use a private MAGEFILE_CACHE temp dir; clean up temp dirs)
  meta.json    - {{"property": "{pid}", "variant": "X", "summary": "...", "clause_broken": "...", "needs_to_manifest": "...", "commands_run": [...], "observed": {{"tests_with_patch": "pass", "demo_with_patch": "fail", "demo_without_patch": "pass"}}}}
You must actually run and confirm all three observations for each variant (full test suite with the patch; demo with; demo without). Leave the worktree clean at the end (`git checkout -- . && git clean -fdq`). Final report: one paragraph per variant (what it changes, why tests still pass, what is needed to see the failure).""")
