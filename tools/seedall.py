#!/usr/bin/env python3
"""tools/seedall.py [ids...]: run every seeded change (seeded/<id>/patch.diff) against the check of
its property (and of the properties listed in seeded/<id>/also.txt), in scratch worktrees, 4 at a
time; writes seeded/RESULTS.md.  Uses VERIF_REPO, so /repo itself is never touched."""
import os, sys, subprocess, json, re
from concurrent.futures import ThreadPoolExecutor
HERE = os.path.dirname(os.path.dirname(os.path.abspath(__file__)))
ids = sys.argv[1:] or sorted(d for d in os.listdir(os.path.join(HERE, "seeded")) if os.path.isdir(os.path.join(HERE, "seeded", d)))
def one(i):
    d = os.path.join(HERE, "seeded", i)
    pids = [i.split("-")[0]]
    also = os.path.join(d, "also.txt")
    if os.path.exists(also):
        pids += open(also).read().split()
    p = subprocess.run([os.path.join(HERE, "tools", "seedtest.py"), os.path.join(d, "patch.diff")] + pids, stdout=subprocess.PIPE, stderr=subprocess.STDOUT, text=True)
    return i, p.stdout.strip().splitlines()
rows = []
with ThreadPoolExecutor(max_workers=4) as ex:
    for i, lines in ex.map(one, ids):
        meta = json.load(open(os.path.join(HERE, "seeded", i, "meta.json")))
        for l in lines:
            m = re.match(r"(C\d+) seed=\S+ (CAUGHT|missed|ERROR[^(]*) \((\d+)s\) violations=(\d+) concrete=(\d+)", l)
            if m:
                how = "" if m.group(2) != "CAUGHT" else ("with failing input" if int(m.group(5)) > 0 else "proof/correspondence only (no-failing-input-found)")
                rows.append((i, m.group(1), m.group(2).strip(), how, meta.get("summary", "")[:140].replace("|", "/").replace("\n", " ")))
                print(l[:200]); sys.stdout.flush()
with open(os.path.join(HERE, "seeded", "RESULTS.md"), "w") as f:
    f.write("| seeded change | check | result | how | what the change does |\n|---|---|---|---|---|\n")
    for r in rows:
        f.write("| %s | %s | %s | %s | %s |\n" % r)
