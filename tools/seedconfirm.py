#!/usr/bin/env python3
"""tools/seedconfirm.py <seedout dir (contains patch.diff, demo/run.sh, meta.json)> <dest id>
Confirms a seeded change independently in a scratch worktree of /repo: it applies, mage builds, the
unedited test suite passes with it, the demonstration fails with it and passes without it.  On
success copies it to /verif/seeded/<dest id>/ with the confirmation recorded in meta.json."""
import sys, os, subprocess, tempfile, shutil, json, time
src, dest = os.path.abspath(sys.argv[1]), sys.argv[2]
env = dict(os.environ, GOFLAGS="-mod=mod", GOPROXY="off", GOSUMDB="off", GOTOOLCHAIN="local")
wt = tempfile.mkdtemp(prefix="seedconfirm_", dir="/tmp"); os.rmdir(wt)
subprocess.check_call(["git", "-C", "/repo", "worktree", "add", "--detach", wt, "HEAD"], stdout=subprocess.DEVNULL, stderr=subprocess.DEVNULL)
def run(cmd, cwd=None, timeout=1500):
    p = subprocess.run(cmd, cwd=cwd, env=env, stdout=subprocess.PIPE, stderr=subprocess.STDOUT, text=True, timeout=timeout)
    return p.returncode, p.stdout
res = {}
try:
    head = subprocess.check_output(["git", "-C", wt, "rev-parse", "--short", "HEAD"], text=True).strip()
    rc, out = run(["bash", os.path.join(src, "demo", "run.sh"), wt]); res["demo_without_patch"] = "pass" if rc == 0 else "FAIL(rc=%d)" % rc
    subprocess.check_call(["git", "-C", wt, "apply", os.path.join(src, "patch.diff")])
    rc, out = run(["go", "build", "./..."], cwd=wt); res["builds_with_patch"] = rc == 0
    rc, out = run(["go", "test", "-vet=off", "-count=1", "./..."], cwd=wt); res["tests_with_patch"] = "pass" if rc == 0 else "FAIL: " + out[-800:]
    rc, out = run(["bash", os.path.join(src, "demo", "run.sh"), wt]); res["demo_with_patch"] = "fail" if rc != 0 else "PASSES(unexpected)"
    res["demo_output_tail"] = out[-600:]
finally:
    subprocess.call(["git", "-C", "/repo", "worktree", "remove", "--force", wt], stdout=subprocess.DEVNULL, stderr=subprocess.DEVNULL)
ok = res.get("demo_without_patch") == "pass" and res.get("builds_with_patch") and res.get("tests_with_patch") == "pass" and res.get("demo_with_patch") == "fail"
print(dest, "CONFIRMED" if ok else "NOT CONFIRMED", json.dumps({k: v for k, v in res.items() if k != "demo_output_tail"}))
if ok:
    d = os.path.join(os.path.dirname(os.path.dirname(os.path.abspath(__file__))), "seeded", dest)
    shutil.rmtree(d, ignore_errors=True)
    shutil.copytree(src, d, ignore=shutil.ignore_patterns("PROMPT.txt", "*.test", "go.sum"))
    mp = os.path.join(d, "meta.json")
    meta = json.load(open(mp)) if os.path.exists(mp) else {}
    meta["confirmed_by_seedconfirm"] = dict(res, repo_head=head, at=time.strftime("%Y-%m-%d %H:%M:%S"))
    json.dump(meta, open(mp, "w"), indent=1)
