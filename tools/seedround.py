#!/usr/bin/env python3
"""tools/seedround.py <round> <Cxx> [...]: for each property, confirm /tmp/seedout<round>_<Cxx>/{A,B}
(tools/seedconfirm.py -> seeded/<Cxx>-<round>{A,B}), run the property's check against each confirmed
change (tools/seedtest.py), print one line each, and remove the agent's worktree /tmp/seed<round>_<Cxx>."""
import os, subprocess, sys, time, random
from concurrent.futures import ThreadPoolExecutor
HERE = os.path.dirname(os.path.dirname(os.path.abspath(__file__)))
rnd, pids = sys.argv[1], sys.argv[2:]
def one(job):
    pid, v = job
    src = "/tmp/seedout%s_%s/%s" % (rnd, pid, v)
    dest = "%s-%s%s" % (pid, rnd, v)
    if not os.path.exists(os.path.join(src, "patch.diff")):
        return "%s: no patch" % dest
    for attempt in range(4):
        time.sleep(random.random() * 3)
        p = subprocess.run([os.path.join(HERE, "tools", "seedconfirm.py"), src, dest], stdout=subprocess.PIPE, stderr=subprocess.STDOUT, text=True)
        if "CONFIRMED" in p.stdout:
            break
    line = [l for l in p.stdout.splitlines() if "CONFIRMED" in l]
    if not line or "NOT CONFIRMED" in line[0]:
        return "%s: %s" % (dest, (line or [p.stdout[-300:]])[0][:400])
    for attempt in range(3):
        q = subprocess.run([os.path.join(HERE, "tools", "seedtest.py"), os.path.join(HERE, "seeded", dest, "patch.diff"), pid], stdout=subprocess.PIPE, stderr=subprocess.STDOUT, text=True)
        if "CAUGHT" in q.stdout or "missed" in q.stdout:
            break
        time.sleep(random.random() * 5)
    return "%s: confirmed; %s" % (dest, " / ".join(l[:160] for l in q.stdout.strip().splitlines()[-2:]))
jobs = [(p, v) for p in pids for v in "AB"]
with ThreadPoolExecutor(max_workers=4) as ex:
    for l in ex.map(one, jobs):
        print(l); sys.stdout.flush()
for p in pids:
    subprocess.call(["git", "-C", "/repo", "worktree", "remove", "--force", "/tmp/seed%s_%s" % (rnd, p)], stdout=subprocess.DEVNULL, stderr=subprocess.DEVNULL)
