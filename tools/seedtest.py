#!/usr/bin/env python3
"""tools/seedtest.py <patch.diff> <Cxx> [<Cyy> ...] [--tier quick] [--seeds 1,2]
Applies a seeded change to a scratch worktree of /repo (never to /repo itself), runs the named
checks against it (VERIF_REPO), prints one line per check, removes the worktree.
Evidence of these runs goes to a temp dir, not to /verif/evidence."""
import sys, os, subprocess, tempfile, shutil, json, time
args = [a for a in sys.argv[1:] if not a.startswith("--")]
opts = {a.split("=")[0]: (a.split("=") + [""])[1] for a in sys.argv[1:] if a.startswith("--")}
patch, pids = os.path.abspath(args[0]), args[1:]
tier = opts.get("--tier") or "quick"
seeds = [s for s in (opts.get("--seeds") or "").split(",") if s] or [None]
wt = tempfile.mkdtemp(prefix="seedtest_", dir="/tmp")
os.rmdir(wt)
ev = tempfile.mkdtemp(prefix="seedev_", dir="/tmp")
subprocess.check_call(["git", "-C", "/repo", "worktree", "add", "--detach", wt, "HEAD"], stdout=subprocess.DEVNULL, stderr=subprocess.DEVNULL)
res = []
try:
    subprocess.check_call(["git", "-C", wt, "apply", patch])
    for pid in pids:
        for sd in seeds:
            env = dict(os.environ, VERIF_REPO=wt, VERIF_EVIDENCE_DIR=ev)
            if sd:
                env["VERIF_SEED"] = sd
            t = time.time()
            p = subprocess.run(["./check", pid, "--tier", tier], cwd=os.path.dirname(os.path.dirname(os.path.abspath(__file__))),
                               env=env, stdout=subprocess.PIPE, stderr=subprocess.PIPE, text=True)
            lines = [l for l in p.stdout.splitlines() if l.startswith(("VIOLATION", "KNOWN-FINDING", "OK "))]
            viol = [l for l in lines if l.startswith("VIOLATION")]
            concrete = [l for l in viol if not l.rstrip().endswith("no-failing-input-found")]
            verdict = "CAUGHT" if p.returncode != 0 and viol else ("missed" if p.returncode == 0 else "ERROR rc=%d" % p.returncode)
            print("%s seed=%s %s (%.0fs) violations=%d concrete=%d %s" % (pid, sd, verdict, time.time() - t, len(viol), len(concrete), " | ".join(viol[:2])))
            res.append((pid, sd, verdict, lines))
finally:
    subprocess.call(["git", "-C", "/repo", "worktree", "remove", "--force", wt], stdout=subprocess.DEVNULL, stderr=subprocess.DEVNULL)
    shutil.rmtree(ev, ignore_errors=True)
sys.exit(0)
