#!/usr/bin/env python3
"""tools/summary.py [--write]: a table of the last run of every check, from evidence/Cxx.json; with --write it replaces
the block between the SUMMARY markers in DESIGN.md."""
import json, os, sys, glob
HERE = os.path.dirname(os.path.dirname(os.path.abspath(__file__)))
rows = ["| id | tier | obligations discharged | evaluations | model mismatches | known findings printed | wall (s) |", "|---|---|---|---|---|---|---|"]
for f in sorted(glob.glob(os.path.join(HERE, "evidence", "C*.json"))):
    d = json.load(open(f))
    c = d.get("coverage", {})
    rows.append("| %s | %s | %s/%s | %s | %s | %s | %s |" % (d.get("property_id"), d.get("tier"), c.get("discharged", "?"), c.get("obligations", "?"),
                c.get("evaluations", "?"), c.get("model_mismatches", c.get("model_rejections", 0)), len(d.get("known_findings_seen") or []), int(d.get("wall_s") or 0)))
txt = "\n".join(rows)
if "--write" in sys.argv:
    p = os.path.join(HERE, "DESIGN.md")
    s = open(p).read()
    a, b = "<!-- SUMMARY-BEGIN -->", "<!-- SUMMARY-END -->"
    i, j = s.index(a) + len(a), s.index(b)
    open(p, "w").write(s[:i] + "\n" + txt + "\n" + s[j:])
else:
    print(txt)
