#!/usr/bin/env python3
"""Self-test of the function tie (lib/extractlib.fn_tie): hand-made mutants of the translated Go functions in a
scratch worktree of /repo (never /repo itself), one line per mutant: what fn_tie said.
usage: tools/trselftest.py [name-substring ...]      (results recorded in tools/notes/Translator.md)"""
import os, sys, json, subprocess, time
VERIF = os.path.dirname(os.path.dirname(os.path.abspath(__file__)))
SCRATCH = "/tmp/tr_scratch"
os.environ["VERIF_REPO"] = SCRATCH
sys.path.insert(0, os.path.join(VERIF, "lib")); sys.path.insert(0, VERIF)

TN = '''	for _, s := range []string{f.PkgAlias, f.Receiver, f.Name} {
		if s != "" {
			names = append(names, s)
		}
	}
'''
JA = '''	out := make([]string, 0, len(a)+len(b))
	out = append(out, a...)
	return append(out, b...)
'''
FI = '''	var out []string
	for _, s := range list {
		if strings.HasPrefix(s, prefix) {
			out = append(out, s)
		}
	}
	return out
'''
DN = '''	splitByPackage := strings.Split(name, ".")
	if len(splitByPackage) == 2 && splitByPackage[0] == "main" {
		return splitByPackage[len(splitByPackage)-1]
	}
	return name
'''
IDR = '''	return fmt.Sprintf("%s.%s%s", path, receiver, f.Name)'''

SE = """		parts := strings.SplitN(s, "=", 2)
		if len(parts) != 2 {
			return nil, fmt.Errorf("badly formatted environment variable: %v", s)
		}
		out[parts[0]] = parts[1]
"""
JE = """	for k, v := range env {
		vals = append(vals, k+"="+v)
	}
"""
GO = """	if goos == "" {
		env["GOOS"] = runtime.GOOS
	} else {
		env["GOOS"] = goos
	}
"""
CD = """		low := strings.ToLower(f.Name)
		if f.Receiver != "" {
			low = strings.ToLower(f.Receiver) + ":" + low
		}
		if lowers[low] {
			hasDupes = true
		}
		lowers[low] = true
		names[low] = append(names[low], f.Name)
"""
OL = """	return strings.TrimSpace(strings.Replace(s, "\\n", " ", -1))"""
ENVI = ["EnvWithGOOS", "EnvWithGOOS/Constraints"]

EX1 = """	sort.Strings(hashes)
"""
EX2 = """	hashes = append(hashes, fmt.Sprintf("%x", sha1.Sum([]byte(mageMainfileTplString))))
"""
EX3 = """	hash := sha1.Sum([]byte(strings.Join(hashes, "") + magicRebuildKey + ver))
"""
SHX = """	if e, ok := err.(exitStatus); ok {
		return e.ExitStatus()
	}
	if e, ok := err.(*exec.ExitError); ok {
		if ex, ok := e.Sys().(exitStatus); ok {
			return ex.ExitStatus()
		}
	}
	return 1
"""
CR = """	ee, ok := err.(*exec.ExitError)
	if ok {
		return ee.Exited()
	}
	return false
"""
MGX = """	exit, ok := err.(exitStatus)
	if !ok {
		return 1
	}
	return exit.ExitStatus()
"""
SY = """	if syns := strings.Split(synopsis, " "); strings.EqualFold(f.Name, syns[0]) {
		return strings.Join(syns[1:], " ")
	}
"""

CDIR = """		home := os.Getenv("HOME")
		if home == "" {
			// a relative ".magefile" would put the compiled binaries into the
			// directory mage is run in
			return filepath.Join(os.TempDir(), ".magefile")
		}
		return filepath.Join(home, ".magefile")
"""
HCP = """	if pkg.Name != "context" {
		return false, nil
	}
	if sel.Sel.Name != "Context" {
		return false, nil
	}
	if len(param.Names) > 1 {
		// something like foo, bar context.Context
		return false, errors.New("ETOOMANYCONTEXTS")
	}
	return true, nil
"""
HER = """	if res.NumFields() > 1 {
		return false, errors.New("ETOOMANYRETURNS")
	}
	ret := res.List[0]
	if len(ret.Names) > 1 {
		return false, errors.New("ETOOMANYERRORS")
	}
"""

IMPG = """	vals := strings.Fields(strings.ToLower(s[2:]))
	if len(vals) == 0 {
		return nil
	}
	if vals[0] != importTag {
		return nil
	}
	return vals
"""

FTL = """		for _, name := range param.Names {
			f.Args = append(f.Args, Arg{Name: name.Name, Type: typ})
		}
		// an unnamed parameter is still a parameter
		if len(param.Names) == 0 {
			f.Args = append(f.Args, Arg{Name: fmt.Sprintf("arg%d", len(f.Args)), Type: typ})
		}
"""
# (id, kind S=semantic H=harmless, item names, file, old, new, expected coverage value prefix)
MUTANTS = [
    ("joinArgs-S1 b before a", "S", ["joinArgs"], "sh/cmd.go", JA, "\tout := make([]string, 0, len(a)+len(b))\n\tout = append(out, b...)\n\treturn append(out, a...)\n", "differs"),
    ("joinArgs-S2 drops b when a is empty", "S", ["joinArgs"], "sh/cmd.go", JA, "\tif len(a) == 0 {\n\t\treturn a\n\t}\n\tout := make([]string, 0, len(a)+len(b))\n\tout = append(out, a...)\n\treturn append(out, b...)\n", "differs"),
    ("joinArgs-V append(a, b...) (same VALUE; the aliasing is C16's heap model)", "H", ["joinArgs"], "sh/cmd.go", JA, "\treturn append(a, b...)\n", "proved"),
    ("joinArgs-H1 var + two appends", "H", ["joinArgs"], "sh/cmd.go", JA, "\tvar out []string\n\tout = append(out, a...)\n\tout = append(out, b...)\n\treturn out\n", "proved"),
    ("joinArgs-H2 element loops", "H", ["joinArgs"], "sh/cmd.go", JA, "\tres := make([]string, 0)\n\tfor _, s := range a {\n\t\tres = append(res, s)\n\t}\n\tfor _, s2 := range b {\n\t\tres = append(res, s2)\n\t}\n\treturn res\n", "proved"),
    ("joinArgs-H3 three-index slice (outside the subset)", "H", ["joinArgs"], "sh/cmd.go", JA, "\treturn append(a[:len(a):len(a)], b...)\n", "untranslatable"),
    ("TargetName-S1 no emptiness test", "S", ["TargetName", "TargetName/Gen", "Functions.Less"], "parse/parse.go", TN, "\tfor _, s := range []string{f.PkgAlias, f.Receiver, f.Name} {\n\t\tnames = append(names, s)\n\t}\n", "differs"),
    ("TargetName-S2 receiver before alias", "S", ["TargetName", "TargetName/Gen"], "parse/parse.go", TN, TN.replace("f.PkgAlias, f.Receiver", "f.Receiver, f.PkgAlias"), "differs"),
    ("TargetName-S3 uses Package instead of PkgAlias", "S", ["TargetName"], "parse/parse.go", TN, TN.replace("f.PkgAlias", "f.Package"), "differs"),
    ("TargetName-H1 continue form", "H", ["TargetName", "TargetName/Gen", "TargetName/Classify", "TargetName/ImportTag", "Functions.Less"], "parse/parse.go", TN, "\tfor _, part := range []string{f.PkgAlias, f.Receiver, f.Name} {\n\t\tif part == \"\" {\n\t\t\tcontinue\n\t\t}\n\t\tnames = append(names, part)\n\t}\n", "proved"),
    ("TargetName-H2 index loop", "H", ["TargetName", "TargetName/Gen"], "parse/parse.go", TN, "\tparts := []string{f.PkgAlias, f.Receiver, f.Name}\n\tfor i := 0; i < len(parts); i++ {\n\t\tif parts[i] != \"\" {\n\t\t\tnames = append(names, parts[i])\n\t\t}\n\t}\n", "proved"),
    ("TargetName-H3 unrolled ifs", "H", ["TargetName", "TargetName/Gen"], "parse/parse.go", TN, "\tif f.PkgAlias != \"\" {\n\t\tnames = append(names, f.PkgAlias)\n\t}\n\tif len(f.Receiver) > 0 {\n\t\tnames = append(names, f.Receiver)\n\t}\n\tif !(f.Name == \"\") {\n\t\tnames = append(names, f.Name)\n\t}\n", "proved"),
    ("ID-S1 no dot after the receiver", "S", ["TargetName"], "parse/parse.go", 'receiver = f.Receiver + "."', 'receiver = f.Receiver', "differs"),
    ("ID-H1 concatenation instead of Sprintf", "H", ["TargetName"], "parse/parse.go", IDR, '\treturn path + "." + receiver + f.Name', "proved"),
    ("Functions.Less-S1 >", "S", ["Functions.Less"], "parse/parse.go", "return s[i].TargetName() < s[j].TargetName()", "return s[i].TargetName() > s[j].TargetName()", "differs"),
    ("Functions.Less-S2 <=", "S", ["Functions.Less"], "parse/parse.go", "return s[i].TargetName() < s[j].TargetName()", "return s[i].TargetName() <= s[j].TargetName()", "differs"),
    ("Functions.Less-S3 by Name only", "S", ["Functions.Less"], "parse/parse.go", "return s[i].TargetName() < s[j].TargetName()", "return s[i].Name < s[j].Name", "differs"),
    ("Functions.Less-H2 locals", "H", ["Functions.Less"], "parse/parse.go", "return s[i].TargetName() < s[j].TargetName()", "x := s[i].TargetName()\n\ty := s[j].TargetName()\n\treturn y > x", "proved"),
    ("Imports.Less-S1 by Name", "S", ["Imports.Less"], "parse/parse.go", "return s[i].UniqueName < s[j].UniqueName", "return s[i].Name < s[j].Name", "differs"),
    ("Imports.Less-S2 swapped indices", "S", ["Imports.Less"], "parse/parse.go", "return s[i].UniqueName < s[j].UniqueName", "return s[j].UniqueName < s[i].UniqueName", "differs"),
    ("Imports.Less-H1 flipped", "H", ["Imports.Less"], "parse/parse.go", "return s[i].UniqueName < s[j].UniqueName", "return s[j].UniqueName > s[i].UniqueName", "proved"),
    ("filter-S1 negated", "S", ["filter"], "mage/main.go", FI, FI.replace("if strings.HasPrefix", "if !strings.HasPrefix"), "differs (advisory"),
    ("filter-S2 arguments swapped", "S", ["filter"], "mage/main.go", FI, FI.replace("HasPrefix(s, prefix)", "HasPrefix(prefix, s)"), "differs (advisory"),
    ("filter-S3 stops... keeps only the last match", "S", ["filter"], "mage/main.go", FI, FI.replace("out = append(out, s)", "out = []string{s}"), "differs (advisory"),
    ("filter-H1 continue form, make", "H", ["filter"], "mage/main.go", FI, "\tres := make([]string, 0, len(list))\n\tfor _, e := range list {\n\t\tif !strings.HasPrefix(e, prefix) {\n\t\t\tcontinue\n\t\t}\n\t\tres = append(res, e)\n\t}\n\treturn res\n", "proved"),
    ("filter-H2 index loop", "H", ["filter"], "mage/main.go", FI, "\tvar out []string\n\tfor i := 0; i < len(list); i++ {\n\t\tif strings.HasPrefix(list[i], prefix) {\n\t\t\tout = append(out, list[i])\n\t\t}\n\t}\n\treturn out\n", "proved"),
    ("filter-H3 extra counter, return nil when none matched (tuple state: outside what the proof script handles; policy b)", "H", ["filter"], "mage/main.go", FI, "\tvar out []string\n\tn := 0\n\tfor _, s := range list {\n\t\tif strings.HasPrefix(s, prefix) {\n\t\t\tout = append(out, s)\n\t\t\tn++\n\t\t}\n\t}\n\tif n == 0 {\n\t\treturn nil\n\t}\n\treturn out\n", "unproved-no-diff"),
    ("filter-H4 extra counter, no nil", "H", ["filter"], "mage/main.go", FI, "\tvar out []string\n\tn := 0\n\tfor _, s := range list {\n\t\tif strings.HasPrefix(s, prefix) {\n\t\t\tout = append(out, s)\n\t\t\tn++\n\t\t}\n\t}\n\tif n == 0 {\n\t\treturn out\n\t}\n\treturn out\n", "unproved-no-diff"),
    ("displayName-S1 other package name", "S", ["displayName"], "mg/deps.go", DN, DN.replace('"main"', '"mage"'), "differs"),
    ("displayName-S2 >= 2 pieces", "S", ["displayName"], "mg/deps.go", DN, DN.replace("== 2", ">= 2"), "differs"),
    ("displayName-S3 returns the first piece", "S", ["displayName"], "mg/deps.go", DN, DN.replace("splitByPackage[len(splitByPackage)-1]", "splitByPackage[0]"), "differs"),
    ("displayName-H1 early return, parts[1]", "H", ["displayName"], "mg/deps.go", DN, "\tparts := strings.Split(name, \".\")\n\tif len(parts) != 2 || parts[0] != \"main\" {\n\t\treturn name\n\t}\n\treturn parts[1]\n", "proved"),
    ("displayName-H2 TrimPrefix/Contains (outside the subset)", "H", ["displayName"], "mg/deps.go", DN, "\tif rest := strings.TrimPrefix(name, \"main.\"); rest != name && !strings.Contains(rest, \".\") {\n\t\treturn rest\n\t}\n\treturn name\n", "untranslatable"),
    # ---- maps, several results, environment
    ("SplitEnv-S1 SplitN(s, \"=\", -1)", "S", ["SplitEnv"], "internal/run.go", SE, SE.replace('"=", 2)', '"=", -1)'), "differs"),
    ("SplitEnv-S2 Split instead of SplitN", "S", ["SplitEnv"], "internal/run.go", SE, SE.replace('strings.SplitN(s, "=", 2)', 'strings.Split(s, "=")'), "differs"),
    ("SplitEnv-S3 name and value swapped", "S", ["SplitEnv"], "internal/run.go", SE, SE.replace("out[parts[0]] = parts[1]", "out[parts[1]] = parts[0]"), "differs"),
    ("SplitEnv-S4 first entry of a name wins", "S", ["SplitEnv"], "internal/run.go", SE, SE.replace("\t\tout[parts[0]] = parts[1]\n", "\t\tif _, seen := out[parts[0]]; !seen {\n\t\t\tout[parts[0]] = parts[1]\n\t\t}\n"), "differs"),
    ("SplitEnv-S5 entries without = are skipped silently", "S", ["SplitEnv"], "internal/run.go", SE, SE.replace('\t\t\treturn nil, fmt.Errorf("badly formatted environment variable: %v", s)\n', "\t\t\tcontinue\n"), "differs"),
    ("SplitEnv-H1 len(parts) < 2, other message", "H", ["SplitEnv"], "internal/run.go", SE, SE.replace("!= 2", "< 2").replace("badly formatted environment variable: %v", "bad entry %s in the environment"), "proved"),
    ("SplitEnv-H2 continue form, errors.New", "H", ["SplitEnv", "EnvWithGOOS"], "internal/run.go", SE, "\t\tkv := strings.SplitN(s, \"=\", 2)\n\t\tif len(kv) == 2 {\n\t\t\tout[kv[0]] = kv[1]\n\t\t\tcontinue\n\t\t}\n\t\treturn nil, errors.New(\"malformed entry \" + s)\n", "proved", [('\t"bytes"\n', '\t"bytes"\n\t"errors"\n')]),
    ("SplitEnv-H3 strings.Cut (outside the subset)", "H", ["SplitEnv"], "internal/run.go", SE, "\t\tname, value, found := strings.Cut(s, \"=\")\n\t\tif !found {\n\t\t\treturn nil, fmt.Errorf(\"badly formatted environment variable: %v\", s)\n\t\t}\n\t\tout[name] = value\n", "untranslatable"),
    ("joinEnv-S1 value=name", "S", ["SplitEnv"], "internal/run.go", JE, JE.replace('k+"="+v', 'v+"="+k'), "differs"),
    ("joinEnv-S2 empty values dropped", "S", ["SplitEnv", "EnvWithGOOS"], "internal/run.go", JE, JE.replace("\t\tvals = append", "\t\tif v == \"\" {\n\t\t\tcontinue\n\t\t}\n\t\tvals = append"), "differs"),
    ("joinEnv-H1 Sprintf", "H", ["SplitEnv", "EnvWithGOOS"], "internal/run.go", JE, JE.replace('k+"="+v', 'fmt.Sprintf("%s=%s", k, v)'), "proved"),
    ("joinEnv-H2 iterates in sorted key order (now inside the subset: the equality proof fails, the multiset comparison finds no difference)", "H", ["SplitEnv"], "internal/run.go", JE, "\tkeys := make([]string, 0, len(env))\n\tfor k := range env {\n\t\tkeys = append(keys, k)\n\t}\n\tsort.Strings(keys)\n\tfor _, k := range keys {\n\t\tvals = append(vals, k+\"=\"+env[k])\n\t}\n", "unproved-no-diff", [('\t"runtime"\n', '\t"runtime"\n\t"sort"\n')]),
    ("EnvWithGOOS-S1 GOOS argument ignored", "S", ENVI, "internal/run.go", GO, GO.replace('env["GOOS"] = goos', 'env["GOOS"] = runtime.GOOS'), "differs"),
    ("EnvWithGOOS-S2 GOOS left to the caller's environment when no argument", "S", ENVI, "internal/run.go", GO, "\tif goos != \"\" {\n\t\tenv[\"GOOS\"] = goos\n\t}\n", "differs"),
    ("EnvWithGOOS-S3 EnvWithCurrentGOOS forgets GOARCH", "S", ENVI, "internal/run.go", "\tvals[\"GOARCH\"] = runtime.GOARCH\n", "", "differs"),
    ("EnvWithGOOS-H1 local variable for the value", "H", ENVI, "internal/run.go", GO, "\tplatform := goos\n\tif platform == \"\" {\n\t\tplatform = runtime.GOOS\n\t}\n\tenv[\"GOOS\"] = platform\n", "proved"),
    ("checkDupeTargets-S1 receiver not lower-cased", "S", ["checkDupeTargets"], "parse/parse.go", CD, CD.replace("strings.ToLower(f.Receiver)", "f.Receiver"), "differs"),
    ("checkDupeTargets-S2 receiver not part of the key", "S", ["checkDupeTargets"], "parse/parse.go", CD, CD.replace("\t\tif f.Receiver != \"\" {\n\t\t\tlow = strings.ToLower(f.Receiver) + \":\" + low\n\t\t}\n", ""), "differs"),
    ("checkDupeTargets-S3 hasDupes reset by a later unique name", "S", ["checkDupeTargets"], "parse/parse.go", CD, CD.replace("\t\tif lowers[low] {\n\t\t\thasDupes = true\n\t\t}\n", "\t\thasDupes = lowers[low]\n"), "differs"),
    ("checkDupeTargets-H1 renamed locals, else branch", "H", ["checkDupeTargets"], "parse/parse.go", CD, "\t\tkey := \"\"\n\t\tif f.Receiver == \"\" {\n\t\t\tkey = strings.ToLower(f.Name)\n\t\t} else {\n\t\t\tkey = strings.ToLower(f.Receiver) + \":\" + strings.ToLower(f.Name)\n\t\t}\n\t\tif lowers[key] {\n\t\t\thasDupes = true\n\t\t}\n\t\tlowers[key] = true\n\t\tnames[key] = append(names[key], f.Name)\n", "proved"),
    ("checkDupeTargets-H2 dupes read off len(names[low]) (equivalent; outside what the script proves)", "H", ["checkDupeTargets"], "parse/parse.go", CD, CD.replace("\t\tif lowers[low] {\n\t\t\thasDupes = true\n\t\t}\n", "\t\tif len(names[low]) > 0 {\n\t\t\thasDupes = true\n\t\t}\n"), "unproved-no-diff"),
    ("toOneLine-S1 no TrimSpace", "S", ["toOneLine"], "parse/parse.go", OL, '\treturn strings.Replace(s, "\\n", " ", -1)', "differs"),
    ("toOneLine-S2 newlines removed, not replaced", "S", ["toOneLine"], "parse/parse.go", OL, '\treturn strings.TrimSpace(strings.Replace(s, "\\n", "", -1))', "differs"),
    ("toOneLine-H1 ReplaceAll, local", "H", ["toOneLine"], "parse/parse.go", OL, '\tflat := strings.ReplaceAll(s, "\\n", " ")\n\treturn strings.TrimSpace(flat)', "proved"),
    ("Functions.Less-H1 locals, flipped", "H", ["Functions.Less"], "parse/parse.go", "return s[i].TargetName() < s[j].TargetName()", "x, y := s[i], s[j]\n\treturn y.TargetName() > x.TargetName()", "proved"),
    # ---- third batch
    ("ExeName-S1 hashes not sorted", "S", ["ExeName"], "mage/main.go", EX1, "", "differs"),
    ("ExeName-S2 template hash sorted in with the file hashes (the tree before db4aa20)", "S", ["ExeName"], "mage/main.go", EX1, "", "differs", [(EX2, EX2 + "\tsort.Strings(hashes)\n")]),
    ("ExeName-S3 the go command's name instead of its version in the name", "S", ["ExeName"], "mage/main.go", EX3, EX3.replace(" + ver)", " + goCmd)") + "\t_ = ver\n", "differs"),
    ("ExeName-S4 rebuild key not part of the name", "S", ["ExeName"], "mage/main.go", EX3, EX3.replace(" + magicRebuildKey", ""), "differs"),
    ("ExeName-S5 .exe on every platform", "S", ["ExeName"], "mage/main.go", 'if runtime.GOOS == "windows" {\n\t\tout += ".exe"', 'if runtime.GOOS != "" {\n\t\tout += ".exe"', "differs"),
    ("ExeName-S6 unreadable file skipped", "S", ["ExeName"], "mage/main.go", "\t\th, err := hashFile(s)\n\t\tif err != nil {\n\t\t\treturn \"\", err\n\t\t}\n", "\t\th, err := hashFile(s)\n\t\tif err != nil {\n\t\t\tcontinue\n\t\t}\n", "differs"),
    ("ExeName-H1 template hash in a local, name built with +", "H", ["ExeName"], "mage/main.go", EX2, "\ttplHash := fmt.Sprintf(\"%x\", sha1.Sum([]byte(mageMainfileTplString)))\n\thashes = append(hashes, tplHash)\n", "proved"),
    ("ExeName-H2 suffix chosen first", "H", ["ExeName"], "mage/main.go", "\tout := filepath.Join(cacheDir, filename)\n\tif runtime.GOOS == \"windows\" {\n\t\tout += \".exe\"\n\t}\n\treturn out, nil", "\tsuffix := \"\"\n\tif runtime.GOOS == \"windows\" {\n\t\tsuffix = \".exe\"\n\t}\n\treturn filepath.Join(cacheDir, filename) + suffix, nil", "proved"),
    ("sh.ExitStatus-S1 exec.ExitError reported as 1", "S", ["sh.ExitStatus"], "sh/cmd.go", SHX, "\tif e, ok := err.(exitStatus); ok {\n\t\treturn e.ExitStatus()\n\t}\n\treturn 1\n", "differs"),
    ("sh.ExitStatus-S2 own ExitStatus() ignored", "S", ["sh.ExitStatus"], "sh/cmd.go", SHX, SHX.replace("\tif e, ok := err.(exitStatus); ok {\n\t\treturn e.ExitStatus()\n\t}\n", ""), "differs"),
    ("sh.ExitStatus-S3 unknown errors give 0", "S", ["sh.ExitStatus"], "sh/cmd.go", SHX, SHX.replace("\treturn 1\n", "\treturn 0\n"), "differs"),
    ("sh.CmdRan-S1 any ExitError counts as ran", "S", ["sh.ExitStatus"], "sh/cmd.go", CR, "\t_, ok := err.(*exec.ExitError)\n\tif ok {\n\t\treturn true\n\t}\n\treturn false\n", "differs"),
    ("sh.CmdRan-S2 nil error reported as not ran", "S", ["sh.ExitStatus"], "sh/cmd.go", "func CmdRan(err error) bool {\n\tif err == nil {\n\t\treturn true", "func CmdRan(err error) bool {\n\tif err == nil {\n\t\treturn false", "differs"),
    ("sh.ExitStatus-H1 order of the two assertions swapped, early returns", "H", ["sh.ExitStatus"], "sh/cmd.go", SHX, "\tif ee, isExit := err.(*exec.ExitError); isExit {\n\t\tws, has := ee.Sys().(exitStatus)\n\t\tif !has {\n\t\t\treturn 1\n\t\t}\n\t\treturn ws.ExitStatus()\n\t}\n\tif es, has := err.(exitStatus); has {\n\t\treturn es.ExitStatus()\n\t}\n\treturn 1\n", "proved"),
    ("sh.CmdRan-H1 if with init", "H", ["sh.ExitStatus"], "sh/cmd.go", CR, "\tif ee, ok := err.(*exec.ExitError); ok {\n\t\treturn ee.Exited()\n\t}\n\treturn false\n", "proved"),
    ("sh.ExitStatus-H2 errors.As (outside the subset)", "H", ["sh.ExitStatus"], "sh/cmd.go", SHX, "\tvar es exitStatus\n\tif errors.As(err, &es) {\n\t\treturn es.ExitStatus()\n\t}\n\treturn 1\n", "untranslatable", [('\t"bytes"\n', '\t"bytes"\n\t"errors"\n')]),
    ("mg.ExitStatus-S1 plain errors give 0", "S", ["mg.ExitStatus"], "mg/errors.go", MGX, MGX.replace("return 1", "return 0"), "differs"),
    ("mg.ExitStatus-S2 status clamped to 1", "S", ["mg.ExitStatus"], "mg/errors.go", MGX, MGX.replace("\treturn exit.ExitStatus()\n", "\tif exit.ExitStatus() != 0 {\n\t\treturn 1\n\t}\n\treturn 0\n"), "differs"),
    ("mg.ExitStatus-H1 positive form", "H", ["mg.ExitStatus"], "mg/errors.go", MGX, "\tif st, is := err.(exitStatus); is {\n\t\treturn st.ExitStatus()\n\t}\n\treturn 1\n", "proved"),
    ("sanitizeSynopsis-S1 exact comparison of the first word", "S", ["sanitizeSynopsis"], "parse/parse.go", SY, SY.replace("strings.EqualFold(f.Name, syns[0])", "f.Name == syns[0]"), "differs"),
    ("sanitizeSynopsis-S2 two words dropped", "S", ["sanitizeSynopsis"], "parse/parse.go", SY, SY.replace("syns[1:]", "syns[2:]").replace("strings.EqualFold(f.Name, syns[0])", "len(syns) > 2 && strings.EqualFold(f.Name, syns[0])"), "differs"),
    ("sanitizeSynopsis-H1 locals", "H", ["sanitizeSynopsis"], "parse/parse.go", SY, "\twords := strings.Split(synopsis, \" \")\n\tfirst := words[0]\n\tif strings.EqualFold(f.Name, first) {\n\t\trest := words[1:]\n\t\treturn strings.Join(rest, \" \")\n\t}\n", "proved"),
    # ---- fourth batch
    ("mg.runtime-S1 Verbose reads MAGEFILE_DEBUG", "S", ["mg.runtime"], "mg/runtime.go", "\tb, _ := strconv.ParseBool(os.Getenv(VerboseEnv))", "\tb, _ := strconv.ParseBool(os.Getenv(DebugEnv))", "differs"),
    ("mg.runtime-S2 any non-empty MAGEFILE_HASHFAST counts", "S", ["mg.runtime"], "mg/runtime.go", "\tb, _ := strconv.ParseBool(os.Getenv(HashFastEnv))\n\treturn b", "\treturn os.Getenv(HashFastEnv) != \"\"", "differs"),
    ("mg.runtime-S3 GoCmd without default", "S", ["mg.runtime"], "mg/runtime.go", "\treturn \"go\"\n", "\treturn \"\"\n", "differs"),
    ("mg.runtime-S4 CacheDir ignores MAGEFILE_CACHE", "S", ["mg.runtime"], "mg/runtime.go", "\tif d != \"\" {\n\t\treturn d\n\t}\n", "\t_ = d\n", "differs"),
    ("mg.runtime-S5 CacheDir relative without HOME (the tree before 293a481)", "S", ["mg.runtime"], "mg/runtime.go", CDIR, "\t\treturn filepath.Join(os.Getenv(\"HOME\"), \".magefile\")\n", "differs"),
    ("mg.runtime-H1 Verbose with explicit error test", "H", ["mg.runtime"], "mg/runtime.go", "\tb, _ := strconv.ParseBool(os.Getenv(VerboseEnv))\n\treturn b", "\tv := os.Getenv(VerboseEnv)\n\tb, err := strconv.ParseBool(v)\n\tif err != nil {\n\t\treturn false\n\t}\n\treturn b", "proved"),
    ("mg.runtime-H2 CacheDir with if instead of switch", "H", ["mg.runtime"], "mg/runtime.go", "\tswitch runtime.GOOS {\n\tcase \"windows\":\n\t\treturn filepath.Join(os.Getenv(\"HOMEDRIVE\"), os.Getenv(\"HOMEPATH\"), \"magefile\")\n\tdefault:\n" + CDIR + "\t}\n", "\tif runtime.GOOS == \"windows\" {\n\t\treturn filepath.Join(os.Getenv(\"HOMEDRIVE\"), os.Getenv(\"HOMEPATH\"), \"magefile\")\n\t}\n\tbase := os.Getenv(\"HOME\")\n\tif base == \"\" {\n\t\tbase = os.TempDir()\n\t}\n\treturn filepath.Join(base, \".magefile\")\n", "proved"),
    ("signature-S1 any package's Context counts", "S", ["signature"], "parse/parse.go", HCP, HCP.replace("\tif pkg.Name != \"context\" {\n\t\treturn false, nil\n\t}\n", "\t_ = pkg\n"), "differs"),
    ("signature-S2 two names for the context accepted", "S", ["signature"], "parse/parse.go", HCP, HCP.replace("len(param.Names) > 1", "len(param.Names) > 2"), "differs"),
    ("signature-S3 (error, error) accepted: field count instead of NumFields", "S", ["signature"], "parse/parse.go", HER, HER.replace("res.NumFields() > 1", "len(res.List) > 1").replace("len(ret.Names) > 1", "len(ret.Names) > 2"), "differs"),
    ("signature-S4 any single result accepted as error", "S", ["signature"], "parse/parse.go", "\tif fmt.Sprint(ret.Type) == \"error\" {\n\t\treturn true, nil\n\t}\n\treturn false, errors.New(\"EBADRETURNTYPE\")", "\tif fmt.Sprint(ret.Type) != \"\" {\n\t\treturn true, nil\n\t}\n\treturn false, errors.New(\"EBADRETURNTYPE\")", "differs"),
    ("signature-S5 hasVoidReturn counts fields, nil list dereferenced away", "S", ["signature"], "parse/parse.go", "\treturn res.NumFields() == 0\n", "\treturn res.NumFields() <= 1\n", "differs"),
    ("signature-H1 context test as one condition", "H", ["signature"], "parse/parse.go", HCP, "\tif pkg.Name != \"context\" || sel.Sel.Name != \"Context\" {\n\t\treturn false, nil\n\t}\n\tif n := len(param.Names); n >= 2 {\n\t\treturn false, errors.New(\"more than one context parameter\")\n\t}\n\treturn true, nil\n", "proved"),
    ("signature-H2 error test first, other messages", "H", ["signature"], "parse/parse.go", HER, "\tif n := res.NumFields(); n >= 2 {\n\t\treturn false, errors.New(\"too many results\")\n\t}\n\tret := res.List[0]\n\tif len(ret.Names) >= 2 {\n\t\treturn false, errors.New(\"too many names\")\n\t}\n", "proved"),
    ("importTag-S1 first comment of the group instead of the last", "S", ["importTag"], "parse/parse.go", "s := comments.List[len(comments.List)-1].Text", "s := comments.List[0].Text", "differs"),
    ("importTag-S2 tag compared without lower-casing", "S", ["importTag"], "parse/parse.go", IMPG, IMPG.replace("strings.Fields(strings.ToLower(s[2:]))", "strings.Fields(s[2:])"), "differs"),
    ("importTag-S3 tag accepted as a prefix", "S", ["importTag"], "parse/parse.go", IMPG, IMPG.replace("vals[0] != importTag", "!strings.HasPrefix(vals[0], importTag)"), "differs"),
    ("importTag-S4 trailing comment wins over the doc comment", "S", ["importTag"], "parse/parse.go", "\tif len(leadingVals) > 0 {\n\t\tvals = leadingVals\n\t\tif len(trailingVals) > 0 {\n\t\t\tlog.Println(\"warning:\", importTag, \"specified both before and after, picking first\")\n\t\t}\n\t} else if len(trailingVals) > 0 {\n\t\tvals = trailingVals\n\t}", "\tif len(trailingVals) > 0 {\n\t\tvals = trailingVals\n\t} else if len(leadingVals) > 0 {\n\t\tvals = leadingVals\n\t}", "differs"),
    ("importTag-S5 extra words ignored instead of rejected", "S", ["importTag"], "parse/parse.go", "\tcase 2:\n\t\t// also has an alias\n\t\treturn path, vals[1], true\n\tdefault:", "\tdefault:\n\t\t// also has an alias\n\t\treturn path, vals[1], true\n\tcase 0:", "differs"),
    ("importTag-H1 tests merged, locals renamed", "H", ["importTag"], "parse/parse.go", IMPG, "\twords := strings.Fields(strings.ToLower(s[2:]))\n\tif len(words) == 0 || words[0] != importTag {\n\t\treturn nil\n\t}\n\treturn words\n", "proved"),
    ("importTag-H2 if chain instead of the switch", "H", ["importTag"], "parse/parse.go", "\tswitch len(vals) {\n\tcase 1:\n\t\t// just the import tag, this is a root import\n\t\treturn path, \"\", true\n\tcase 2:\n\t\t// also has an alias\n\t\treturn path, vals[1], true\n\tdefault:\n\t\tlog.Println(\"warning: ignoring malformed\", importTag, \"for import\", path)\n\t\treturn \"\", \"\", false\n\t}", "\tif len(vals) == 1 {\n\t\treturn path, \"\", true\n\t}\n\tif len(vals) == 2 {\n\t\treturn path, vals[1], true\n\t}\n\tlog.Println(\"warning: ignoring malformed\", importTag, \"for import\", path)\n\treturn \"\", \"\", false", "proved"),
    # ---- fifth batch
    ("UsesMagefiles-S1 compares the whole path", "S", ["UsesMagefiles"], "mage/main.go", "return filepath.Base(i.Dir) == MagefilesDirName", "return i.Dir == MagefilesDirName || filepath.Base(i.Dir) == \"\"", "differs"),
    ("UsesMagefiles-H1 local for the base name", "H", ["UsesMagefiles"], "mage/main.go", "return filepath.Base(i.Dir) == MagefilesDirName", "base := filepath.Base(i.Dir)\n\treturn base == MagefilesDirName", "proved"),
    ("funcType-S1 unnamed parameters get no Arg (the tree before c50893e)", "S", ["funcType"], "parse/parse.go", FTL, FTL.replace("\t\t// an unnamed parameter is still a parameter\n\t\tif len(param.Names) == 0 {\n\t\t\tf.Args = append(f.Args, Arg{Name: fmt.Sprintf(\"arg%d\", len(f.Args)), Type: typ})\n\t\t}\n", ""), "differs"),
    ("funcType-S2 the context parameter is converted like an argument", "S", ["funcType"], "parse/parse.go", "\tx := 0\n\tif f.IsContext {\n\t\tx++\n\t}\n", "\tx := 0\n", "differs"),
    ("funcType-S3 unsupported parameter types skipped instead of rejected", "S", ["funcType"], "parse/parse.go", "\t\tif !ok {\n\t\t\treturn nil, fmt.Errorf(\"unsupported argument type: %s\", t)\n\t\t}\n", "\t\tif !ok {\n\t\t\tcontinue\n\t\t}\n", "differs"),
    ("funcType-S4 bool parameters declared as string", "S", ["funcType"], "parse/parse.go", "\t\"bool\":             \"bool\",\n}", "\t\"bool\":             \"string\",\n}", "differs"),
    ("funcType-S5 generic functions accepted", "S", ["funcType"], "parse/parse.go", "\tif hasTypeParams(ft) {\n\t\t// a generic function cannot be called without instantiating it\n\t\treturn nil, errors.New(\"EGENERIC\")\n\t}\n", "\t_ = hasTypeParams(ft)\n", "differs"),
    ("funcType-S6 unnamed parameters numbered by position, not by argument count", "S", ["funcType"], "parse/parse.go", FTL, FTL.replace("len(f.Args))", "x)"), "differs"),
    ("funcType-H1 locals, append in one place", "H", ["funcType"], "parse/parse.go", FTL, "\t\tnames := param.Names\n\t\tfor _, id := range names {\n\t\t\tf.Args = append(f.Args, Arg{Name: id.Name, Type: typ})\n\t\t}\n\t\tif len(names) == 0 {\n\t\t\tautoName := fmt.Sprintf(\"arg%d\", len(f.Args))\n\t\t\tf.Args = append(f.Args, Arg{Name: autoName, Type: typ})\n\t\t}\n", "proved"),
]


def git(*a):
    subprocess.run(["git", "-C", "/repo"] + list(a), check=True, stdout=subprocess.DEVNULL, stderr=subprocess.DEVNULL)


def main():
    sel = sys.argv[1:]
    subprocess.run(["git", "-C", "/repo", "worktree", "remove", "--force", SCRATCH], stdout=subprocess.DEVNULL, stderr=subprocess.DEVNULL)
    git("worktree", "add", "--detach", SCRATCH)
    import vlib, extractlib
    rows = []
    try:
        for row in MUTANTS:
            mid, kind, items, rel, old, new, expect = row[:7]
            more = row[7] if len(row) > 7 else []      # further (old, new) replacements in the same file (imports)
            if sel and not any(s in mid for s in sel):
                continue
            path = os.path.join(SCRATCH, rel)
            orig = open(path).read()
            assert orig.count(old) == 1, (mid, orig.count(old))
            text = orig.replace(old, new)
            for o2, n2 in more:
                assert text.count(o2) == 1, (mid, o2)
                text = text.replace(o2, n2)
            open(path, "w").write(text)
            try:
                for attempt in range(4):      # (another process may be trimming the shared go build cache: a link step can lose its input)
                    rc = subprocess.run(["go", "build", "./..."], cwd=SCRATCH, env=vlib.goenv(), stdout=subprocess.PIPE, stderr=subprocess.STDOUT)
                    if rc.returncode == 0 or b"go-build" not in rc.stdout:
                        break
                assert rc.returncode == 0, (mid, rc.stdout.decode()[-800:])
                ctx = vlib.Ctx("SELFTEST", "quick", 1)
                seen = []
                ctx.write_replay = lambda data: (seen.append(data["what"]), "(replay not written)")[1]
                t0 = time.time()
                extractlib.fn_tie(ctx, items)
                cov = ctx.coverage["fn_tie"]
                viol = len(ctx.violations)
                ok = all(str(cov[i]).startswith(expect) for i in items) and (viol > 0) == (expect == "differs")
                rows.append((mid, kind, cov, viol, ok, time.time() - t0))
                print("%-4s %-60s %s violations=%d %.1fs" % ("ok" if ok else "BAD", mid, json.dumps(cov), viol, time.time() - t0), flush=True)
                for w in seen[:1]:
                    print("       first differing input: %s  translated=%s model=%s%s" % (
                        json.dumps(w["input"], sort_keys=True), json.dumps(w["translated_result"]), json.dumps(w["model_result"]),
                        "  real code=%s" % json.dumps(w["go_result"]) if "go_result" in w else "  (not exported: no call of the real code)"))
                if "-v" in os.environ.get("TRSELFTEST", ""):
                    print(ctx.notes)
            finally:
                open(path, "w").write(orig)
    finally:
        git("worktree", "remove", "--force", SCRATCH)
    bad = [r for r in rows if not r[4]]
    print("%d mutants, %d as expected" % (len(rows), len(rows) - len(bad)))
    return 1 if bad else 0


if __name__ == "__main__":
    sys.exit(main())
