#!/usr/bin/env python3
"""tools/validate.py: MANIFEST.json and every evidence/*.json against the schemas in /root/.vp (needs jsonschema: run with python3-vt)."""
import glob, json, sys
import jsonschema
bad = 0
jsonschema.validate(json.load(open('/verif/MANIFEST.json')), json.load(open('/root/.vp/MANIFEST.schema.json')))
sch = json.load(open('/root/.vp/EVIDENCE.schema.json'))
for f in sorted(glob.glob('/verif/evidence/*.json')):
    try:
        jsonschema.validate(json.load(open(f)), sch)
    except Exception as e:
        bad += 1
        print(f, str(e)[:300])
print("manifest valid; evidence files invalid:", bad)
sys.exit(1 if bad else 0)
